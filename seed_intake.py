#!/usr/bin/env python3
"""Takes a sub-agent's deliverables (/tmp/wt2_<P>/SEEDED/{patchN.diff,demoN_test.go,NOTES.md}), confirms each change in a fresh scratch
worktree (applies, builds, existing suite passes, demo fails with / passes without), and on success stores it as /verif/seeded/<P>_<k>/.
usage: seed_intake.py <P> [<P>...]"""
import os, re, sys, json, shutil, subprocess
V = "/verif"
def pkgdir_of(demo):
    m = re.search(r"^package\s+(\w+)", open(demo).read(), re.M)
    p = m.group(1)
    return {"mimetype": ".", "mimetype_test": ".", "magic": "internal/magic", "magic_test": "internal/magic", "json": "internal/json",
            "json_test": "internal/json", "charset": "internal/charset", "charset_test": "internal/charset"}[p]
for P in sys.argv[1:]:
    src = "/tmp/wt2_%s/SEEDED" % P
    for n in (1, 2, 3):
        patch, demo = "%s/patch%d.diff" % (src, n), "%s/demo%d_test.go" % (src, n)
        if not os.path.exists(patch): continue
        k = 1
        while os.path.exists("%s/seeded/%s_%d" % (V, P, k)): k += 1
        pk = pkgdir_of(demo)
        r = subprocess.run(["python3", V + "/seed_eval.py", "confirm", patch, demo, pk], stdout=subprocess.PIPE, text=True)
        try: doc = json.loads(r.stdout)
        except Exception: doc = {"confirmed": False, "raw": r.stdout[-2000:]}
        if not doc.get("confirmed"):
            print(P, n, "NOT CONFIRMED", json.dumps(doc)[:1500]); continue
        d = "%s/seeded/%s_%d" % (V, P, k); os.makedirs(d)
        shutil.copy(patch, d + "/patch.diff"); shutil.copy(demo, d + "/demo_test.go")
        doc["pkgdir"] = pk
        json.dump(doc, open(d + "/confirm.json", "w"), indent=1)
        notes = open(src + "/NOTES.md").read() if os.path.exists(src + "/NOTES.md") else ""
        open(d + "/NOTES_from_author.md", "w").write("(change %d of the author's two; notes cover both)\n\n" % n + notes)
        print(P, n, "confirmed ->", d)
