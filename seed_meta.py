#!/usr/bin/env python3
"""Writes seeded/<id>/meta.json from the table below + confirm.json + result.json (if present)."""
import json, os
V = "/verif/seeded"
M = {
"C01_1": ("matchOleClsid reads the OLE directory SecID as signed without a <0 guard (slice bounds panic)", "OLE magic, >=512 bytes after the limit, uint32 at offset 48 with the top bit set"),
"C01_2": ("DetectReader takes its header buffer from a pool; a buffer pooled under a smaller limit is resliced past its capacity (panic)", "sequence: DetectReader at limit L1, SetLimit(L2>L1), DetectReader again"),
"C01_3": ("OLE SecID decoded as int32 ('overflow fix'), negative CLSID offset -> slice panic", "OLE magic, header >= 512 bytes, uint32 at 48 in 0x80000000..0xFFFFFFFE"),
"C01_4": ("pooled header buffer in DetectReader, Pool.New sized by the limit in force then; never grown", "sequence: reader detection at limit L1, SetLimit(L2>L1), reader detection"),
"C02_1": ("hand-rolled fast path in (*MIME).clone formats charset labels itself with an incomplete token check", "HTML/XML declaration whose label contains a tspecial the fast path lets through"),
"C02_2": ("read-error check dropped from the limit-0 branch of DetectReader", "SetLimit(0) and a reader that fails with a non-EOF error"),
"C02_3": ("charset fast path in clone builds 'type; charset=label' unquoted when plainLabel accepts; plainLabel lets ( ) < > @ , : / [ ] ? = through", "text/html or text/xml whose declared label contains one of those characters (String() no longer parses)"),
"C02_4": ("Extend on a detection result resolves the clone to its tree node but keeps parent: m (the clone, with charset parameter)", "sequence: detect text (result carries charset), result.Extend(...), detect input the new detector accepts -> ancestor carries a parameter"),
"C03_1": ("leaf result cache not invalidated by Extend", "sequence: detect, Extend below the cached leaf, detect the same kind of input again"),
"C03_2": ("ancestor-chain cache keyed by MIME string (distinct nodes share strings: video/quicktime, application/json, x-msaccess, octet-stream/aaf)", "two detections in one process ending on different same-named nodes; observer must look at Extension()/Parent()"),
"C03_3": ("match memoises parameter-free results in a sync.Map keyed by m.mime", "two detections ending on different nodes with the same MIME string (.mov then .mqv, .mdb then .accdb, unknown binary then AAF)"),
"C03_4": ("Detect/DetectReader fast path for empty input returns text.cloneHierarchy(nil) without walking", "zero-length input after an Extend whose detector accepts the empty slice"),
"C04_1": ("pooled JSON parser keeps currPath between two parses", "a failed/truncated parse that leaves keys on the path, followed by a parse whose query path is completed by the stale keys"),
"C04_2": ("DetectReader reads past a lowered limit (pooled header buffer not resliced)", "sequence: reader detection at limit A, SetLimit(B<A), reader detection of input longer than B"),
"C04_3": ("Parse resets the pooled parser only in the deferred hand-back; the oversized-path branch skips the reset", "a JSON-looking input nested deeper than 128 and cut/broken, then another JSON detection that receives that parser"),
"C04_4": ("Detect rounds the cut at the limit up to a UTF-8 boundary (up to 3 bytes beyond the limit reach the detectors)", "Detect (byte API) with len(in) > limit and in[limit] in 0x80..0xBF"),
"C05_1": ("pooled header buffer keeps the length of an earlier, larger limit", "sequence: reader detection at limit A, SetLimit(B<A), reader detection of an input longer than B"),
"C05_2": ("bufio.Reader.Peek over-reads when the limit is below 16 (bufio minimum buffer size)", "limit < 16 and a reader holding more than limit bytes"),
"C05_3": ("DetectReader takes its buffer from a sync.Pool, reallocates when shorter than the limit but never reslices when longer", "sequence: reader detection at limit A, SetLimit(B) with 0<B<A, reader detection of input longer than B"),
"C05_4": ("DetectFile sizes the read from Stat and passes the size as the limit, so detectors see len == limit (their 'cut' signal)", "DetectFile only, regular file shorter than the limit whose unterminated last line decides (JSON/NDJSON/CSV)"),
"C06_1": ("DetectReader re-reads the limit after reading (two atomic loads)", "SetLimit lands between the two loads; input longer than the smaller limit; JSON/CSV family"),
"C06_2": ("Extend copies siblings under the read lock and swaps under the write lock (lost update)", "two concurrent Extends on the same parent"),
"C06_3": ("Is appends to the alias slice (write to a shared backing array under no lock)", "concurrent Is on a node whose alias slice has spare capacity (Extend with aliases[:n])"),
"C06_4": ("shared tail detect(in) loads readLimit a second time", "SetLimit from small to larger/0 between the two loads; input longer than the small limit; len-vs-limit detectors"),
"C06_5": ("lazy Lookup table published via atomic.Pointer, invalidated (Store(nil)) before mu.Lock in Extend", "a concurrent Lookup rebuilds the table from the old tree in the gap; afterwards Lookup(new name) returns nil"),
"C07_1": ("pooled header buffer in DetectReader not resliced to the current limit", "reader detection after lowering the limit; text header followed by a binary byte beyond the limit"),
"C07_2": ("bitmap of binary data bytes misses 0x1A", "input whose only binary-data byte is 0x1A"),
"C07_3": ("magic.Text scans 8 bytes at a time with a bit trick whose threshold is 0x1F instead of 0x20", "only binary byte is 0x1F, inside a full 8-byte word that holds no other byte < 0x1F, no BOM"),
"C07_4": ("pooled 3072-byte DetectReader buffer grown but never cut to the limit", "SetLimit(n<3072), reader/file detection, first n bytes clean text, binary byte in n..3071"),
"C08_1": ("object members counted twice against the recursion limit", "object nesting deeper than 2048, limit raised"),
"C08_2": ("leading white space trimmed before the 'was the input cut?' decision", "JSON with leading whitespace at least as long as the limit"),
"C08_3": ("jsonHelper takes the length for whole-vs-prefix from the trimmed slice", "well-formed JSON starting with whitespace and at least as long as the limit"),
"C08_4": ("object member values parsed at lvl+1 (objects count twice against the cap)", "object nesting > 2048 (mixed ~2730), limit raised"),
"C09_1": ("'escaped quote' look-back in a string fast path", "string ending in a backslash-escaped backslash followed by quote, then malformed remainder"),
"C09_2": ("literal cut by the end of input counted as inspected without comparing it", "prefix mode, input ends inside a literal with wrong letters"),
"C09_3": ("endMember helper infers the innermost container from the top of currPath; a key literally '[' is taken for the array marker", "object with key \"[\" closed with ']'"),
"C09_4": ("tooDeep flag: Parse reports fully parsed/inspected once the nesting cap is hit", "nesting > 4096 then garbage; limit 0 or > ~4100"),
"C10_1": ("length pre-filter counts trailing whitespace", "deciding member followed by trailing whitespace near a boundary"),
"C10_2": ("array-depth counter survives in the pooled parser", "a truncated parse inside arrays, then a sub-type detection with the same parser"),
"C10_3": ("ParseAll + memo of the last result keyed by slice identity (address, length)", "Detect on a buffer, overwrite it in place with another JSON document of the same length, Detect again"),
"C10_4": ("consumeObject evaluates a matched query only after the delimiter following the value", "input >= limit with the deciding member ending exactly at the last header byte (or followed only by whitespace)"),
"C11_1": ("look-back for the cut-off trailing rune is one byte too short", "4-byte sequence cut after 3 bytes at the end"),
"C11_2": ("Latin classification runs on the trimmed buffer", "invalid UTF-8 text whose only C1 byte is in the trimmed tail"),
"C11_3": ("hand-written scanUTF8 replaces utf8.Valid, ED-lead rule missing (surrogates accepted)", "undeclared text containing ED A0..BF xx, otherwise valid UTF-8"),
"C11_4": ("one-entry memo in FromPlain stored under the trimmed key with the verdict of the untrimmed input", "sniff prefix+dangling partial sequence, then sniff exactly the prefix"),
"C12_1": ("duplicate-attribute set no longer reset per tag", "earlier meta with an attribute name shared with the declaring meta"),
"C12_2": ("XML label taken from the CharsetReader callback", "XML declared utf-8 variants / labels for which the callback is not invoked"),
"C12_3": ("fromHTML cuts content to 1024 bytes before tokenizing (WHATWG prescan)", "meta declaration beyond byte 1024 but inside the header, non-utf-8 label, no BOM"),
"C12_4": ("attrList map hoisted out of the token loop and never cleared", "an earlier non-declaring meta sharing an attribute name (http-equiv/content) with the declaring one; non-utf-8 label"),
"C13_1": ("header cut at the limit is trimmed of a partial rune in Detect/DetectReader, so dropLastLine believes the file complete", "input > limit, non-ASCII character straddling the cut, cut line damaged"),
"C13_2": ("sv ignores the error of a record that runs into the end of the input", "ragged complete last line whose newline is the last inspected byte"),
"C13_3": ("sv sets TrimLeadingSpace (swallows tabs for TSV)", "TSV with empty cells placed differently per line; ragged table accepted / regular one rejected"),
"C13_4": ("pooled DetectReader buffer never grown: reads fewer bytes than the current limit", "sequence: reader detection at limit A, SetLimit(B>A), reader detection of CSV/NDJSON longer than A whose line at A is cut"),
"C14_1": ("empty input bypasses root-level extensions", "zero-length input after Extend with a detector accepting empty input"),
"C14_2": ("Lookup name index keeps the first registration", "Extend with a name/alias equal to an existing one, then Lookup"),
"C14_3": ("Extend wraps user detectors in bounded(): raw[:limit] when len > limit (limit 0 -> empty slice)", "SetLimit(0), non-empty input, extension detector"),
"C14_4": ("re-registration with the same mime+extension refreshes the existing node in place (no prepend)", "Extend(A), Extend(B), Extend(A again) / extending with the name and extension of a built-in child"),
"C15_1": ("Is strips the charset parameter of a result by text, misses the RFC 2231 form", "result whose charset label needs RFC 2231 encoding"),
"C15_2": ("EqualsAny trims before it cuts the parameters off", "whitespace between subtype and ';'"),
"C15_3": ("Lookup index map updated incrementally by Extend without the new node's aliases", "Lookup first (index exists), then Extend new name + alias, Lookup(alias) == nil"),
"C15_4": ("Is/EqualsAny use a trim-then-cut normaliser instead of ParseMediaType", "argument with whitespace before ';'"),
"C16_1": ("pooled parser loses its recursion cap", "sequence: a parse that trips the clean-up branch, then a bomb"),
"C16_2": ("depth guard for objects only runs while the query is unsatisfied", "object chain deeper than the cap after the query is satisfied"),
"C16_3": ("consumeObject calls consumeObject directly for '{' member values (no depth check)", "pure object-in-object chain deeper than 4096, examined in full"),
"C16_4": ("deferred clean-up '*p = parserState{}' when cap(currPath) > 128 zeroes maxRecursion", "a parse whose path exceeded 128 entries, then a bomb with the same pooled parser"),
"C17_1": ("Ttf excludes more than the Access detectors accept", "TTF-like header with a near-miss of the Access marker at offset 4 once enough bytes are visible"),
"C17_2": ("parquet footer check on 'whole' files", "PAR1 file shorter than the limit without the footer magic"),
"C17_3": ("Tar also checks the record after the first entry's content, offset rounded wrongly for exact multiples of 512", "first entry size a non-zero multiple of 512, >=1 further entry, header >= 512*(size/512+3)"),
"C17_4": ("DetectReader reads min(limit,3072) then the rest, reusing n (keeps only the second chunk's count)", "reader path, limit > 3072 (not 0), input >= 3072 bytes"),
"C18_1": ("checksum computed over the first 500 bytes only", "corruption in bytes 500..511 / headers with non-zero bytes there"),
"C18_2": ("size field required to parse as octal", "GNU base-256 size field"),
"C18_3": ("tarChksum sums only TrimRight(b, ' \\x00')", "corrupting a trailing NUL to exactly 0x20; or a header whose last used field ends in a space"),
"C18_4": ("numeric fields must be padding or valid octal after the checksum test (GNU base-256 ignored)", "GNU archive with base-256 size/uid/gid/mtime"),
"C19_1": ("jump over the first entry uses the uncompressed size", "first entry deflated with sizes in the header, compressed != uncompressed"),
"C19_2": ("name/extra skip computed once, not per entry", "later entries with different name lengths"),
"C19_3": ("zipStoredEntryLen skip lands 30 bytes too far for stored pre-sized entries at positions 2..5", "a stored, sized entry (e.g. directory) immediately before the only marker entry"),
"C19_4": ("entry-name cache keyed on slice identity (address, length)", "two zip detections on the same buffer with same length but different contents"),
}
for sid, (what, needs) in sorted(M.items()):
    d = os.path.join(V, sid)
    if not os.path.isdir(d): print("missing", sid); continue
    meta = {"id": sid, "property": sid.split("_")[0], "change": what, "needs_to_manifest": needs,
            "source": "independent sub-agent given only the property text and a scratch worktree (round %d)" % (1 if int(sid.split("_")[1]) <= (3 if sid.startswith("C06") else 2) else 2),
            "files": {"patch": "patch.diff", "demonstration": "demo_test.go"}}
    c = os.path.join(d, "confirm.json")
    if os.path.exists(c):
        cj = json.load(open(c))
        meta["confirmed_in_scratch_worktree"] = {"what_i_ran": ["git worktree add /tmp/ev_* HEAD; git apply patch.diff", "go build ./...", "go test -vet=off -count=1 ./...  (existing suite, must pass)",
            "copy demo into %s; go test -run 'Seeded|Demo' (must FAIL with the change)" % cj.get("pkgdir", "."), "git apply -R; same demo (must PASS)", "git worktree remove --force"],
            "builds": cj.get("build") == 0, "suite_passes_with_change": cj["suite_with_change"][0] == 0, "demo_fails_with_change": cj["demo_with_change"][0] != 0,
            "demo_passes_without_change": cj["demo_without_change"][0] == 0, "confirmed": cj.get("confirmed")}
    r = os.path.join(d, "result.json")
    if os.path.exists(r):
        rj = json.load(open(r))
        meta["check_result"] = {"tier": rj.get("tier"), "caught": rj.get("caught"), "checks": {p: {"exit": c["exit"], "violations": c["violations"][:2], "detail": c["detail"][:2]} for p, c in rj.get("checks", {}).items()}}
    json.dump(meta, open(os.path.join(d, "meta.json"), "w"), indent=1)
print(len(M), "meta files;", [x for x in sorted(os.listdir(V)) if os.path.isdir(os.path.join(V, x)) and x not in M])
