#!/bin/bash
# Applies each seeded change to /repo, runs the quick check of the property it targets, reverts.
cd /verif
for d in seeded/C*_[0-9]; do
  id=$(basename $d); prop=${id%%_*}
  [ -f $d/result.json ] && [ -z "$FORCE" ] && continue
  if [ -n "$(git -C /repo status --porcelain)" ]; then echo "/repo dirty"; exit 1; fi
  git -C /repo apply /verif/$d/patch.diff || { echo "$id: patch does not apply"; continue; }
  s=$(date +%s)
  ./check $prop --tier quick > $d/check_output.txt 2>&1
  rc=$?
  e=$(date +%s)
  git -C /repo checkout -- .
  git -C /repo clean -fdq
  viol=$(grep -c "^VIOLATION" $d/check_output.txt)
  echo "{\"seeded\": \"$id\", \"property\": \"$prop\", \"check_exit\": $rc, \"violation_lines\": $viol, \"wall_s\": $((e-s))}" > $d/result.json
  echo "$id exit=$rc violations=$viol $((e-s))s $(tail -1 $d/check_output.txt | cut -c1-150)"
done
