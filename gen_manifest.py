#!/usr/bin/env python3
"""Regenerates MANIFEST.json from specs.py and the per-property texts below."""
import json, os, sys
sys.path.insert(0, os.path.dirname(os.path.abspath(__file__)))
import specs

REPO_FIX_COMMITS = []  # fix: commits are not hook commits; hooks are overlay-only

TEXT = {
 "C01": ("bounded symbolic execution: every Go run-time check on every explored path of every registered detector, of the charset sniffers and of the entry points is a solver obligation; holds for all byte values and all uint32 limits inside the stated length bounds", "4 C01"),
 "C07": ("solver-decided equivalence of magic.Text with an independent BOM/binary-byte oracle for all headers up to the bound; tree-level half on the real tree with symbolic detector verdicts", "4 C07"),
 "C08": ("every strict RFC 8259 document inside the bound (assumption executed symbolically) is accepted whole and at every cut; verdicts from z3", "4 C08"),
 "C09": ("acceptance implies membership in the relaxed grammar (independent three-valued recogniser), whole and truncated mode, all byte strings up to the bound", "4 C09"),
 "C10": ("key-path stack balance as an inductive step from an arbitrary stack height, on symbolic inputs over the structural alphabet; end-to-end sub-type verdicts on assembled objects", "4 C10"),
 "C11": ("charset.FromPlain against an independent RFC 3629 DFA, BOM table and C1 rule for all byte strings without binary-data bytes up to the bound, and for the second of two consecutive arbitrary texts", "4 C11, 11.2"),
 "C16": ("recursion guard as an inductive step from arbitrary 62-bit level/cap; measured interpreter call depth bounded by the cap for all inputs in the bound and for chains of concrete openers through the real Parse with a scaled-down cap; pool invariant", "4 C16, 11.2"),
 "C03": ("the real match/clone/cloneHierarchy/Extend on the real 179-node tree with one solver variable per detector verdict; equality with an independent first-match walk for every verdict vector (hence inputs of any length), also for the second of two detections with independent verdict vectors", "4 C03, 11.2"),
 "C04": ("purity as obligations from adversarial pre-states and histories: recycled JSON parser state with symbolic fields, real earlier parses, dirtied pooled CSV reader, limit slicing, write watch on the caller's buffer, sequences of reader detections with changing limits, one buffer re-used for different documents", "4 C04, 11.2"),
 "C05": ("real DetectReader/DetectFile with io.ReadFull/ReadAll executed from source over a nondeterministic conforming reader (all chunkings, EOF with data, error at every offset; inputs around 3072 bytes with limits below/at/above it; os.Stat modelled); header handed to the walk compared byte-wise by the solver with Detect's", "4 C05, 11.2"),
 "C13": ("CSV/TSV through the real encoding/csv+bufio and NDJSON through the real scanner: survival of every cut after line 2 for symbolic tables/streams, and the converse implication on arbitrary bytes over a stated alphabet", "4 C13"),
 "C14": ("real Extend/Lookup/match on the real tree with symbolic verdicts: position among siblings, lookup of names/aliases, unchanged results when every extension rejects, immutability of earlier results", "4 C14"),
 "C17": ("monotonicity in the limit as one inductive step over the header length for each binary root format executed from its real code (a concrete member of each hand-over path class is probed first; tar with symbolic and with pinned size fields at record boundaries)", "4 C17, 11.2"),
 "C18": ("real Tar/tarParseOctal/tarChksum on a fully symbolic 512-byte block; obligations with 512-term sums decided over Int after interval analysis shows no wrap", "4 C18"),
 "C02": ("structure of results for every verdict vector on the real tree, plus the format->parse round trip of hostile charset labels through the real FromHTML/FromXML, mime.FormatMediaType and mime.ParseMediaType executed symbolically", "4 C02"),
 "C06": ("data-race freedom as a schedule-independent lock discipline (lockset + ownership + atomicity) on the paths of every ordered pair of public operations, replayed under go test -race; sequential-outcome postconditions of seven concurrent scenarios with the interleaving at synchronisation operations as a forked decision variable of the executor (every schedule with at most two preemptions)", "4 C06, 11.1, 11.2"),
 "C12": ("charset.FromHTML through the real x/net/html tokenizer and FromXML through the real encoding/xml on declaration templates with symbolic labels, whitespace and case variants", "4 C12"),
 "C15": ("real Is/EqualsAny/Lookup with mime.ParseMediaType executed symbolically over all 258 registered names in decorated and substituted spellings", "4 C15"),
 "C19": ("real zipContains and the zip-family detectors on archives laid out by a harness zip writer with symbolic name/body bytes; oracle = the entry list written", "4 C19"),
}

TECH = {
 "C06": "solver-based bounded symbolic execution of go/ssa: lockset discipline over logged accesses plus bounded-preemption schedule exploration (schedules are forked decisions of the executor), counterexamples replayed natively under the race detector / in goroutines",
 "C18": "solver-based bounded symbolic execution of go/ssa; 512-term checksum obligations decided by z3 over Int after interval analysis (bit-vector back ends do not terminate), counterexamples replayed natively",
 "C03": "solver-based bounded symbolic execution of go/ssa with one solver variable per detector verdict (tree-walk abstraction), counterexamples replayed natively",
 "C14": "solver-based bounded symbolic execution of go/ssa with one solver variable per detector verdict (tree-walk abstraction), counterexamples replayed natively",
}

NOTE = ("trusted: go/packages+go/ssa front end, the symgo executor's instruction semantics and intrinsics (engine/symgo), z3 4.8.12, "
        "the harness oracles; claims hold only inside the bounds recorded in the evidence file; 64-bit int")

def main():
    props = [json.loads(l)["id"] for l in open(os.path.join(os.path.dirname(__file__), "properties.jsonl"))]
    na_reasons = json.load(open(os.path.join(os.path.dirname(__file__), "not_applicable.json")))
    checks = []
    for pid in props:
        if pid not in specs.SPECS or pid not in TEXT or pid in na_reasons:
            continue
        text, ref = TEXT[pid]
        checks.append({
            "property_id": pid,
            "quick_cmd": "./check %s --tier quick" % pid,
            "thorough_cmd": "./check %s --tier thorough" % pid,
            "evidence_file": "/verif/evidence/%s.json" % pid,
            "replay_cmd_template": "python3 /verif/verif.py replay {path}",
            "engine": "symgo",
            "level_claimed": {"category": "other", "text": "bounded symbolic verification of the real code (SSA -> SMT): " + text, "design_ref": "DESIGN.md section " + ref},
            "level_note": NOTE,
            "technique": TECH.get(pid, "solver-based bounded symbolic execution of go/ssa (z3 + exact finite-domain procedure), counterexamples replayed natively"),
        })
    claimed = {c["property_id"] for c in checks}
    na = [{"property_id": p, "reason": na_reasons.get(p, "check not yet registered in this build round (harness under construction)")} for p in props if p not in claimed]
    m = {
        "version": 1,
        "setup_cmd": "cd /verif/engine && GOFLAGS=-mod=mod GOPROXY=off GOSUMDB=off GOTOOLCHAIN=local go build -o /verif/bin/symgo ./cmd/symgo",
        "hooks": {"guard": "verif",
                  "enable": "harness files carry //go:build verif and are injected through go/packages overlays (symbolic run) and go test -overlay (native replay); no file in /repo is modified by the machinery",
                  "baseline_off_cmd": "cd /repo && go test -vet=off -count=1 -timeout 25m ./...",
                  "source_commits": [], "add_only": True},
        "engines": [{"name": "symgo", "path": "/verif/engine", "serves_properties": sorted(claimed),
                     "kind_free_text": "bounded symbolic executor over go/ssa (fork of x/tools go/ssa/interp with symbolic scalars), finite-domain + z3 solver layer, multi-process path exploration, schedule exploration for two logical threads, native replay of counterexamples"}],
        "checks": checks,
        "not_applicable": na,
        "notes": "fix: commits in /repo repair genuine defects found by the checks (see known_findings.json and DESIGN.md section 6).",
    }
    json.dump(m, open(os.path.join(os.path.dirname(__file__), "MANIFEST.json"), "w"), indent=1)
    print("claimed:", sorted(claimed))

if __name__ == "__main__":
    main()
