//go:build verif

package charset

// HC01Charset: the three charset functions the tree walk calls on the examined header,
// plus FromBOM, on arbitrary bytes: no panic on any path.
func HC01Charset() {
	maxN := vChoice("maxlen", 64)
	which := vChoice("fn", 4)
	raw := vBytes("raw", 0, maxN)
	var r string
	vWatch(raw)
	switch which {
	case 0:
		r = FromPlain(raw)
	case 1:
		r = FromBOM(raw)
	case 2:
		r = FromXML(raw)
	case 3:
		r = FromHTML(raw)
	}
	vAssert(vWritten() == 0, "input-not-written")
	vNote("charset", r)
	vReach("end")
}
