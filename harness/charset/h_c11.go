//go:build verif

package charset

// Independent oracles for C11.

func c11Bin(b byte) bool {
	return b <= 0x08 || b == 0x0B || (0x0E <= b && b <= 0x1A) || (0x1C <= b && b <= 0x1F)
}

// c11ValidCut: RFC 3629 well-formedness (no over-longs, no surrogates, nothing above
// U+10FFFF), tolerating one multi-byte sequence that is cut off at the very end but valid
// as far as it goes. complete reports whether at least one multi-byte sequence was complete.
func c11ValidCut(x []byte) (ok bool, complete bool) {
	i := 0
	for i < len(x) {
		b := x[i]
		if b < 0x80 {
			i++
			continue
		}
		n := 0
		lo, hi := byte(0x80), byte(0xBF)
		switch {
		case b >= 0xC2 && b <= 0xDF:
			n = 1
		case b == 0xE0:
			n, lo = 2, 0xA0
		case b >= 0xE1 && b <= 0xEC:
			n = 2
		case b == 0xED:
			n, hi = 2, 0x9F
		case b == 0xEE || b == 0xEF:
			n = 2
		case b == 0xF0:
			n, lo = 3, 0x90
		case b >= 0xF1 && b <= 0xF3:
			n = 3
		case b == 0xF4:
			n, hi = 3, 0x8F
		default:
			return false, complete
		}
		for k := 1; k <= n; k++ {
			if i+k >= len(x) {
				return true, complete // cut off at the very end
			}
			c := x[i+k]
			l, h := byte(0x80), byte(0xBF)
			if k == 1 {
				l, h = lo, hi
			}
			if c < l || c > h {
				return false, complete
			}
		}
		complete = true
		i += n + 1
	}
	return true, complete
}

func c11ASCIIText(b byte) bool {
	return b == 0x09 || b == 0x0A || b == 0x0C || b == 0x0D || b == 0x1B || (0x20 <= b && b <= 0x7E)
}

// c11Check compares one FromPlain result with the oracles.
func c11Check(x []byte, r string, pfx string) {
	// byte-order marks that can occur without a binary-data byte
	switch {
	case len(x) >= 3 && x[0] == 0xEF && x[1] == 0xBB && x[2] == 0xBF:
		vAssert(r == "utf-8", pfx+"bom-utf8")
		return
	case len(x) >= 2 && x[0] == 0xFE && x[1] == 0xFF:
		vAssert(r == "utf-16be", pfx+"bom-utf16be")
		return
	case len(x) >= 2 && x[0] == 0xFF && x[1] == 0xFE:
		vAssert(r == "utf-16le", pfx+"bom-utf16le")
		return
	}
	valid, complete := c11ValidCut(x)
	allASCII := true
	c1 := false
	for _, b := range x {
		if !c11ASCIIText(b) {
			allASCII = false
		}
		if 0x80 <= b && b <= 0x9F {
			c1 = true
		}
	}
	if r == "utf-8" {
		vAssert(valid, pfx+"utf8-only-if-valid")
	}
	if valid && (allASCII || complete) {
		vAssert(r == "utf-8", pfx+"utf8-always-when-valid")
	}
	if r == "windows-1252" {
		vAssert(c1, pfx+"cp1252-needs-c1-byte")
	}
	if r == "iso-8859-1" {
		vAssert(!c1, pfx+"latin1-excludes-c1-byte")
	}
	vAssert(r == "" || r == "utf-8" || r == "windows-1252" || r == "iso-8859-1", pfx+"closed-result-set")
}

// HC11Plain: charset.FromPlain on every byte string without binary-data bytes.
func HC11Plain() {
	maxN := vChoice("maxlen", 64)
	x := vBytes("x", 1, maxN)
	for _, b := range x {
		vAssume(!c11Bin(b))
	}
	r := FromPlain(x)
	c11Check(x, r, "")
	vReach("end")
}

// HC11Seq: the answer for a text does not depend on what was sniffed before it: FromPlain on an
// arbitrary first text (whatever it leaves behind in caches or pooled state), then FromPlain on a
// second arbitrary text, whose result must satisfy the same oracles. The second text is also
// sniffed a second time (repeating a detection never changes the answer).
func HC11Seq() {
	maxN := vChoice("maxlen", 64)
	x1 := vBytes("x1", 1, maxN)
	x2 := vBytes("x2", 1, maxN)
	for _, b := range x1 {
		vAssume(!c11Bin(b))
	}
	for _, b := range x2 {
		vAssume(!c11Bin(b))
	}
	_ = FromPlain(x1)
	r := FromPlain(x2)
	c11Check(x2, r, "seq-")
	r2 := FromPlain(x2)
	vAssert(r2 == r, "seq-repeat-same-answer")
	vReach("end")
}
