//go:build verif

package magic

// c13Detect emulates what Detect hands a detector at read limit L: the first L bytes (limit L)
// when the file is longer than the limit, the whole file otherwise.
func c13Cut(buf []byte, L int) []byte {
	if L > 0 && len(buf) > L {
		return buf[:L:L]
	}
	return buf
}

// HC13Table: a rectangular delimiter-separated table keeps its type at every read limit from the
// end of the second line to beyond the file: the incomplete last line is ignored.
func HC13Table() {
	isTab := vChoice("delim", 2) == 1
	delim := byte(',')
	if isTab {
		delim = '\t'
	}
	cols := 2 + vChoice("cols", 2)
	rows := 2 + vChoice("rows", 2)
	cellLen := vChoice("cellLen", 3) // 0: empty and one-byte cells alternate (chess-board pattern)
	crlfMode := vChoice("crlf", 3) // 0: LF everywhere, 1: CRLF everywhere, 2: CRLF on the first line only
	var buf []byte
	endSecond := 0
	for r := 0; r < rows; r++ {
		for c := 0; c < cols; c++ {
			if c > 0 {
				buf = append(buf, delim)
			}
			n := cellLen
			if cellLen == 0 && (r+c)%2 == 1 {
				n = 1
			}
			cell := vBytes("cell", n, n)
			for i, b := range cell {
				// stated restriction: cells free of quotes, line breaks and delimiters; a row does not start with '#'
				vAssume(b != '"' && b != '\n' && b != '\r' && b != delim)
				if c == 0 && i == 0 {
					vAssume(b != '#')
				}
			}
			buf = append(buf, cell...)
		}
		last := r == rows-1
		if !last || vChoice("finalNewline", 2) == 1 {
			if crlfMode == 1 || (crlfMode == 2 && r == 0) {
				buf = append(buf, '\r')
			}
			buf = append(buf, '\n')
		}
		if r == 1 {
			endSecond = len(buf)
		}
	}
	vAssume(endSecond > 0 && buf[endSecond-1] == '\n')
	for L := endSecond; L <= len(buf)+1; L++ {
		raw := c13Cut(buf, L)
		var got bool
		if isTab {
			got = Tsv(raw, uint32(L))
		} else {
			got = Csv(raw, uint32(L))
		}
		vAssert(got, "table-survives-cut")
	}
	if isTab {
		vAssert(Tsv(buf, 0), "table-whole")
	} else {
		vAssert(Csv(buf, 0), "table-whole")
	}
	vReach("end")
}

func c13Alpha(x []byte, alpha string) {
	for _, c := range x {
		ok := false
		for k := 0; k < len(alpha); k++ {
			if c == alpha[k] {
				ok = true
			}
		}
		vAssume(ok)
	}
}

// HC13SvConverse: CSV/TSV is reported only if every complete (LF-terminated), non-blank,
// non-comment line has the same number (at least two) of fields. Inputs without quotes.
func HC13SvConverse() {
	maxN := vChoice("maxlen", 32)
	x := vBytes("x", 0, maxN)
	isTab := vChoice("delim", 2) == 1
	delim := byte(',')
	if isTab {
		delim = '\t'
	}
	if vChoice("alpha", 2) == 1 {
		// small alphabet (delimiter, line feed, one letter, blank), which reaches longer inputs
		c13Alpha(x, string([]byte{delim, '\n', 'a', ' '}))
	} else {
		c13Alpha(x, ",\t\n\r#a1 ")
	}
	var limit uint32
	switch vChoice("mode", 3) {
	case 1:
		limit = uint32(len(x))
	case 2:
		limit = uint32(len(x)) + 1
	}
	var got bool
	if isTab {
		got = Tsv(x, limit)
	} else {
		got = Csv(x, limit)
	}
	if got {
		want := -1
		start := 0
		for i := 0; i < len(x); i++ {
			if x[i] != '\n' {
				continue
			}
			line := x[start:i]
			start = i + 1
			if len(line) > 0 && line[len(line)-1] == '\r' {
				line = line[:len(line)-1]
			}
			if len(line) == 0 || line[0] == '#' {
				continue
			}
			fields := 1
			for _, b := range line {
				if b == delim {
					fields++
				}
			}
			vAssert(fields >= 2, "every-line-has-two-fields")
			if want == -1 {
				want = fields
			}
			vAssert(fields == want, "every-line-has-the-same-field-count")
		}
	}
	vReach("end")
}

// HC13NdConverse: NDJSON is reported only if there are at least two lines, every complete line is
// blank or a complete (relaxed) JSON value, and at least one line is an object or array.
func HC13NdConverse() {
	maxN := vChoice("maxlen", 32)
	x := vBytes("x", 0, maxN)
	c13Alpha(x, "[]{}\":,1a \n\r")
	var limit uint32
	switch vChoice("mode", 3) {
	case 1:
		limit = uint32(len(x))
	case 2:
		limit = uint32(len(x)) + 1
	}
	if NdJSON(x, limit) {
		lf := 0
		start := 0
		anyObjArr := false
		for i := 0; i <= len(x); i++ {
			atEnd := i == len(x)
			if !atEnd && x[i] != '\n' {
				continue
			}
			if atEnd {
				// the unterminated last line counts as complete only when the whole file was examined
				if start < len(x) && (limit == 0 || uint32(len(x)) < limit) {
					_, oa := jAnyValueLine(x[start:])
					if oa {
						anyObjArr = true
					}
				}
				break
			}
			lf++
			line := x[start:i]
			start = i + 1
			blank := true
			for _, b := range line {
				if !(b == ' ' || b == '\t' || b == '\r' || b == '\n' || b == '\x0c') {
					blank = false
				}
			}
			if blank {
				continue
			}
			ok, oa := jAnyValueLine(line)
			vAssert(ok, "complete-line-is-a-json-value")
			if oa {
				anyObjArr = true
			}
		}
		vAssert(lf >= 1, "at-least-two-lines")
		// Class of the recorded finding C13-dropLastLine-index0: truncated mode and the only line feed
		// is the very first byte, which dropLastLine's loop (i > 0) never looks at.
		truncated := limit != 0 && uint32(len(x)) >= limit
		if truncated && lf == 1 && len(x) > 0 && x[0] == '\n' {
			vAssert(anyObjArr, "at-least-one-object-or-array/newline-only-at-index-0")
		} else {
			vAssert(anyObjArr, "at-least-one-object-or-array")
		}
	}
	vReach("end")
}

// HC13NdStream: one-value-per-line streams keep their type at every cut after the second line.
func HC13NdStream() {
	vals := []string{`{"a":1}`, `[1,2]`, `{}`, `[]`, `{"b":"x y"}`, `[{"k":[]}]`}
	n := 2 + vChoice("lines", 2)
	var buf []byte
	endSecond := 0
	for i := 0; i < n; i++ {
		v := []byte(vals[vChoice("value", len(vals))])
		// one symbolic digit or letter inside scalars keeps the contents arbitrary
		for j := range v {
			if v[j] == '1' {
				d := vByte("digit")
				vAssume('0' <= d && d <= '9')
				v[j] = d
			}
		}
		buf = append(buf, v...)
		if i < n-1 || vChoice("finalNewline", 2) == 1 {
			if vChoice("crlf", 2) == 1 {
				buf = append(buf, '\r')
			}
			buf = append(buf, '\n')
		}
		if i == 1 {
			endSecond = len(buf)
		}
	}
	vAssume(endSecond > 0 && buf[endSecond-1] == '\n')
	for L := endSecond; L <= len(buf)+1; L++ {
		vAssert(NdJSON(c13Cut(buf, L), uint32(L)), "stream-survives-cut")
	}
	vAssert(NdJSON(buf, 0), "stream-whole")
	vReach("end")
}

// HC13Ragged: a table in which one complete line has a different number of fields is not CSV/TSV,
// wherever the damaged line sits and wherever the read limit falls at or after its end (including
// exactly on its line feed, and the file ending exactly there).
func HC13Ragged() {
	isTab := vChoice("delim", 2) == 1
	delim := byte(',')
	if isTab {
		delim = '\t'
	}
	cols := 2 + vChoice("cols", 2)
	rows := 3 + vChoice("rows", 2)
	bad := vChoice("badRow", rows)
	delta := vChoice("delta", 2) // 0: one field fewer, 1: one field more
	crlf := vChoice("crlf", 2) == 1
	var buf []byte
	endBad := 0
	for r := 0; r < rows; r++ {
		n := cols
		if r == bad {
			if delta == 0 {
				n = cols - 1
			} else {
				n = cols + 1
			}
		}
		for c := 0; c < n; c++ {
			if c > 0 {
				buf = append(buf, delim)
			}
			cell := vBytes("cell", 1, 1)
			vAssume(cell[0] != '"' && cell[0] != '\n' && cell[0] != '\r' && cell[0] != delim && cell[0] != '#')
			buf = append(buf, cell...)
		}
		if crlf {
			buf = append(buf, '\r')
		}
		buf = append(buf, '\n')
		if r == bad {
			endBad = len(buf)
		}
	}
	check := func(raw []byte, limit uint32, label string) {
		var got bool
		if isTab {
			got = Tsv(raw, limit)
		} else {
			got = Csv(raw, limit)
		}
		vAssert(!got, label)
	}
	check(buf, 0, "ragged-table-rejected-whole")
	// the file ends exactly with the damaged line and is exactly as long as the limit
	check(buf[:endBad:endBad], uint32(endBad), "ragged-table-rejected-file-ends-at-limit")
	for L := endBad; L <= len(buf)+1; L++ {
		if L < endBad+2 && L <= len(buf) {
			// the line after the damaged one is cut right at its start: only complete lines count
		}
		check(c13Cut(buf, L), uint32(L), "ragged-table-rejected-at-cut")
	}
	vReach("end")
}
