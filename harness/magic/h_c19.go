//go:build verif

package magic

// Zip writer of the harness: lays out local file headers, names, extra fields, bodies, optional
// data descriptors, the central directory and the end record as APPNOTE prescribes and as
// archive/zip does (cross-validated natively against archive/zip in the engine self-test).

type c19Entry struct {
	name       []byte
	body       []byte // compressed bytes as stored in the archive (opaque)
	descriptor bool   // sizes zeroed in the local header, 16-byte descriptor after the body (archive/zip's Create)
	deflated   bool
}

func c19le16(b []byte, v int) []byte { return append(b, byte(v), byte(v>>8)) }
func c19le32(b []byte, v int) []byte {
	return append(b, byte(v), byte(v>>8), byte(v>>16), byte(v>>24))
}

func c19Write(entries []c19Entry) []byte {
	var out []byte
	var offsets []int
	for _, e := range entries {
		offsets = append(offsets, len(out))
		out = append(out, 'P', 'K', 3, 4)
		out = c19le16(out, 20) // version needed
		flags := 0
		if e.descriptor {
			flags = 0x8
		}
		out = c19le16(out, flags)
		method := 0
		if e.deflated {
			method = 8
		}
		out = c19le16(out, method)
		out = c19le16(out, 0) // time
		out = c19le16(out, 0) // date
		size := len(e.body)
		if e.descriptor {
			size = 0
		}
		usize := size
		if e.deflated && !e.descriptor {
			usize = size*3 + 11 // deflated content: the uncompressed size differs from the stored size
		}
		out = c19le32(out, 0)     // crc32 (not read by the detector)
		out = c19le32(out, size)  // compressed size
		out = c19le32(out, usize) // uncompressed size
		out = c19le16(out, len(e.name))
		out = c19le16(out, 0) // extra length
		out = append(out, e.name...)
		out = append(out, e.body...)
		if e.descriptor {
			out = append(out, 'P', 'K', 7, 8)
			out = c19le32(out, 0)
			out = c19le32(out, len(e.body))
			out = c19le32(out, len(e.body))
		}
	}
	cdStart := len(out)
	for i, e := range entries {
		out = append(out, 'P', 'K', 1, 2)
		out = c19le16(out, 20)
		out = c19le16(out, 20)
		out = c19le16(out, 0)
		out = c19le16(out, 0)
		out = c19le16(out, 0)
		out = c19le16(out, 0)
		out = c19le32(out, 0)
		out = c19le32(out, len(e.body))
		out = c19le32(out, len(e.body))
		out = c19le16(out, len(e.name))
		out = c19le16(out, 0)
		out = c19le16(out, 0)
		out = c19le16(out, 0)
		out = c19le16(out, 0)
		out = c19le32(out, 0)
		out = c19le32(out, offsets[i])
		out = append(out, e.name...)
	}
	cdLen := len(out) - cdStart
	out = append(out, 'P', 'K', 5, 6)
	out = c19le16(out, 0)
	out = c19le16(out, 0)
	out = c19le16(out, len(entries))
	out = c19le16(out, len(entries))
	out = c19le32(out, cdLen)
	out = c19le32(out, cdStart)
	out = c19le16(out, 0)
	return out
}

// c19Sym returns n symbolic bytes from 'a'..'o' (no byte of any marker's first letter, no 'P').
func c19Sym(tag string, n int) []byte {
	b := vBytes(tag, n, n)
	for _, c := range b {
		vAssume('a' <= c && c <= 'o')
	}
	return b
}

func c19Filler(kind int) c19Entry {
	switch kind {
	case 0: // tiny: one-byte name, empty stored body, no descriptor (31 bytes in all)
		return c19Entry{name: c19Sym("fname", 1)}
	case 1: // small deflated member with a data descriptor, as archive/zip's Create writes it
		return c19Entry{name: c19Sym("fname", 1), body: c19Sym("fbody", 2), descriptor: true, deflated: true}
	case 2: // OOXML bookkeeping part
		return c19Entry{name: []byte("docProps/core.xml"), body: c19Sym("fbody", 4), descriptor: true, deflated: true}
	case 4: // long bookkeeping name, as office writers emit, deflated with its sizes in the header
		return c19Entry{name: []byte("customXml/itemProps1.xml"), body: c19Sym("fbody", 3), deflated: true}
	default: // near miss: the name is only "xl", the stored body starts with '/'
		return c19Entry{name: []byte("xl"), body: append([]byte{'/'}, c19Sym("fbody", 3)...)}
	}
}

func c19HasPrefix(name []byte, p string) bool {
	if len(name) < len(p) {
		return false
	}
	for i := 0; i < len(p); i++ {
		if name[i] != p[i] {
			return false
		}
	}
	return true
}

// HC19: archives laid out by the harness writer; verdicts of the zip-family detectors against the
// entry list that was written.
func HC19() {
	firstNames := []string{"[Content_Types].xml", "_rels/.rels", "docProps/app.xml", "customXml/item1.xml", "META-INF/MANIFEST.MF", "a.txt", "mimetype"}
	first := vChoice("first", len(firstNames))
	markers := []string{"", "word/document.xml", "xl/workbook.xml", "ppt/presentation.xml"}
	marker := vChoice("marker", len(markers))
	var entries []c19Entry
	// first entry
	fe := c19Entry{name: []byte(firstNames[first]), body: c19Sym("body0", 3), descriptor: vChoice("desc0", 2) == 1, deflated: true}
	odf := ""
	if firstNames[first] == "mimetype" {
		types := []string{"application/vnd.oasis.opendocument.text", "application/epub+zip", "application/vnd.oasis.opendocument.spreadsheet"}
		odf = types[vChoice("odf", len(types))]
		fe = c19Entry{name: []byte("mimetype"), body: []byte(odf)} // stored, no descriptor, no extra field
	}
	entries = append(entries, fe)
	pos := 0
	if marker != 0 {
		pos = 1 + vChoice("pos", 5) // the marker is the 2nd..6th entry
	}
	nFill := pos - 1
	if marker == 0 {
		nFill = vChoice("fillers", 4)
	}
	uniform := vChoice("tier", 2) == 0
	kind0 := vChoice("fillerKind", 5)
	kindRest := kind0
	if nFill > 1 {
		kindRest = vChoice("fillerKindRest", 5)
	}
	for i := 0; i < nFill; i++ {
		k := kind0
		if i > 0 {
			k = kindRest
			if !uniform {
				k = vChoice("fillerKind", 5)
			}
		}
		entries = append(entries, c19Filler(k))
	}
	if marker != 0 {
		entries = append(entries, c19Entry{name: []byte(markers[marker]), body: c19Sym("mbody", 2), descriptor: true, deflated: true})
	}
	// one trailing member so that the marker is not always last
	if vChoice("trailer", 2) == 1 {
		entries = append(entries, c19Filler(1))
	}
	raw := c19Write(entries)

	gotXlsx, gotDocx, gotPptx := Xlsx(raw, 0), Docx(raw, 0), Pptx(raw, 0)
	gotJar, gotApk := Jar(raw, 0), APK(raw, 0)
	vAssert(Zip(raw, 0), "zip-signature")

	// oracle from the entry list
	has := func(p string) bool {
		for _, e := range entries {
			if c19HasPrefix(e.name, p) {
				return true
			}
		}
		return false
	}
	// (a) OOXML packages
	if firstNames[first] == "[Content_Types].xml" && marker != 0 {
		switch marker {
		case 1:
			vAssert(gotDocx && !gotXlsx, "docx-identified")
		case 2:
			vAssert(gotXlsx, "xlsx-identified")
		case 3:
			vAssert(gotPptx && !gotXlsx && !gotDocx, "pptx-identified")
		}
	}
	// (b) JAR
	if firstNames[first] == "META-INF/MANIFEST.MF" {
		vAssert(gotJar && !gotApk, "jar-identified")
	}
	// (c) ODF / EPUB
	if odf == "application/vnd.oasis.opendocument.text" {
		vAssert(Odt(raw, 0), "odt-identified")
	}
	if odf == "application/epub+zip" {
		vAssert(Epub(raw, 0), "epub-identified")
	}
	if odf == "application/vnd.oasis.opendocument.spreadsheet" {
		vAssert(Ods(raw, 0), "ods-identified")
	}
	// (d) converse
	if gotXlsx {
		vAssert(has("xl/"), "xlsx-implies-marker")
	}
	if gotDocx {
		vAssert(has("word/"), "docx-implies-marker")
	}
	if gotPptx {
		vAssert(has("ppt/"), "pptx-implies-marker")
	}
	if gotJar {
		vAssert(has("META-INF/MANIFEST.MF"), "jar-implies-marker")
	}
	vAssert(!gotApk, "apk-implies-marker")
	vReach("end")
}
