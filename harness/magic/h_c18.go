//go:build verif

package magic

import vbytes "bytes"

// c18WriterHeader constrains h (>= 512 bytes) to be a first header block whose checksum field is
// one of the spellings real tar writers emit (archive/tar, GNU tar, bsdtar, star) of the unsigned
// byte sum with the field itself taken as spaces, and whose name does not carry the Gentoo
// gpkg marker the detector deliberately excludes. Everything else (name, mode, ids, size, type,
// magic, ...) is arbitrary. The equation is linear in the digit bytes, so no division is needed.
func c18WriterHeader(h []byte) int {
	sum := int64(8 * 32)
	for i := 0; i < 512; i++ {
		if i < 148 || i >= 156 {
			sum += int64(h[i])
		}
	}
	f := h[148:156]
	digit := func(b byte) {
		vAssume('0' <= b && b <= '7')
	}
	val := int64(0)
	spelling := vChoice("spelling", 4)
	switch spelling {
	case 0: // six zero-padded octal digits, NUL, space (POSIX ustar writers, archive/tar)
		for i := 0; i < 6; i++ {
			digit(f[i])
			val = val*8 + int64(f[i]-'0')
		}
		vAssume(f[6] == 0 && f[7] == ' ')
	case 1: // seven zero-padded digits, NUL
		for i := 0; i < 7; i++ {
			digit(f[i])
			val = val*8 + int64(f[i]-'0')
		}
		vAssume(f[7] == 0)
	case 2: // seven zero-padded digits, space
		for i := 0; i < 7; i++ {
			digit(f[i])
			val = val*8 + int64(f[i]-'0')
		}
		vAssume(f[7] == ' ')
	case 3: // space-padded to six, NUL, space (old GNU style)
		j := vChoice("leadingSpaces", 5)
		for i := 0; i < j; i++ {
			vAssume(f[i] == ' ')
		}
		for i := j; i < 6; i++ {
			digit(f[i])
			val = val*8 + int64(f[i]-'0')
		}
		vAssume(f[j] != '0')
		vAssume(f[6] == 0 && f[7] == ' ')
	}
	vAssume(val == sum)
	vAssume(!vbytes.Contains(h[:100], []byte("/gpkg-1\x00")))
	return spelling
}

// HC18Valid: every header with a writer-conformant checksum is accepted.
func HC18Valid() {
	extra := vChoice("extra", 9)
	h := vBytes("h", 512+extra, 512+extra)
	c18WriterHeader(h)
	limit := vUint32("limit")
	vAssert(Tar(h, limit), "writer-header-accepted")
	vReach("end")
}

// c18Positions: corrupted positions per tier. The most common spelling (0) gets the dense list; the
// other spellings a sparse one (each position costs about 13 integer queries of 512-term sums).
func c18Positions(tier int, spelling int) []int {
	var out []int
	for p := 0; p < 512; p++ {
		if p >= 148 && p < 156 {
			continue
		}
		if spelling != 0 {
			if p == 0 || p == 147 || p == 156 || p == 511 || (tier == 1 && p%8 == 5) {
				out = append(out, p)
			}
			continue
		}
		if tier == 1 || p%16 == 3 || p == 0 || p == 99 || p == 100 || p == 147 || p == 156 || p == 157 || p == 256 || p == 257 || p == 344 || p == 345 || p == 500 || p == 511 {
			out = append(out, p)
		}
	}
	return out
}

// HC18Corrupt: replacing any single byte outside the checksum field of such a header by any other
// value makes the detector reject it (the unsigned and the signed sum both move away from the
// recorded value).
func HC18Corrupt() {
	h := vBytes("h", 512, 512)
	spelling := c18WriterHeader(h)
	tier := vChoice("tier", 2)
	ps := c18Positions(tier, spelling)
	p := ps[vChoice("position", len(ps))]
	v := vByte("v")
	vAssume(v != h[p])
	h2 := make([]byte, len(h))
	copy(h2, h)
	h2[p] = v
	limit := vUint32("limit")
	vAssert(!Tar(h2, limit), "corrupted-header-rejected")
	vReach("end")
}

// c18Pin assumes h[off:off+len(sp)] == sp.
func c18Pin(h []byte, off int, sp []byte) {
	for i, b := range sp {
		vAssume(h[off+i] == b)
	}
}

// HC18Writer: headers as real writers lay them out: the numeric fields (mode, uid, gid, size, mtime) carry one
// of the spellings writers emit - zero-padded octal with NUL or space terminator, all NULs (unused), or the GNU
// base-256 form (first byte 0x80 / 0xff) that archive/tar and GNU tar use for values that do not fit: sizes of
// 8 GiB and more, ids above 2097151, negative or far-future mtimes - while name, link name, magic, owner names
// and prefix stay symbolic, and the checksum is the writer's. Pinned fields are concrete for the code under
// test, so whatever it does with them costs no solver work. Every such header must be accepted.
func HC18Writer() {
	h := vBytes("h", 512, 512)
	oct8 := [][]byte{[]byte("0000644\x00"), []byte("0001750\x00"), []byte("000644 \x00"), {0, 0, 0, 0, 0, 0, 0, 0},
		{0x80, 0, 0, 0, 0, 0x20, 0, 1}, {0xff, 0xff, 0xff, 0xff, 0xff, 0xff, 0xff, 0xfe}}
	oct12 := [][]byte{[]byte("00000001750\x00"), []byte("14371573422\x00"), []byte("00000000000 "),
		{0x80, 0, 0, 0, 0, 0, 0, 2, 0, 0, 0, 0}, {0xff, 0xff, 0xff, 0xff, 0xff, 0xff, 0xff, 0xff, 0xff, 0xff, 0xfe, 0x0c}}
	which := vChoice("field", 5)
	k := vChoice("spellingOfField", 6)
	// every field is plain octal except the chosen one, which takes the k-th spelling of its width
	offs := [5]int{100, 108, 116, 124, 136}
	for f := 0; f < 5; f++ {
		wide := f >= 3
		idx := 0
		if f == 1 || f == 2 || f == 4 {
			idx = 1
		}
		if f == which {
			idx = k
		}
		if wide {
			vAssume(idx < len(oct12))
			c18Pin(h, offs[f], oct12[idx])
		} else {
			c18Pin(h, offs[f], oct8[idx])
		}
	}
	c18WriterHeader(h)
	limit := vUint32("limit")
	vAssert(Tar(h, limit), "writer-style-header-accepted")
	vReach("end")
}
