//go:build verif

package magic

// Independent oracle for C07: WHATWG binary data bytes and the five Unicode BOMs.
var c07Bin = [256]bool{
	0x00: true, 0x01: true, 0x02: true, 0x03: true, 0x04: true, 0x05: true, 0x06: true, 0x07: true, 0x08: true,
	0x0B: true,
	0x0E: true, 0x0F: true, 0x10: true, 0x11: true, 0x12: true, 0x13: true, 0x14: true, 0x15: true, 0x16: true,
	0x17: true, 0x18: true, 0x19: true, 0x1A: true,
	0x1C: true, 0x1D: true, 0x1E: true, 0x1F: true,
}

func c07HasBOM(x []byte) bool {
	if len(x) >= 3 && x[0] == 0xEF && x[1] == 0xBB && x[2] == 0xBF {
		return true
	}
	if len(x) >= 4 && x[0] == 0x00 && x[1] == 0x00 && x[2] == 0xFE && x[3] == 0xFF {
		return true
	}
	if len(x) >= 4 && x[0] == 0xFF && x[1] == 0xFE && x[2] == 0x00 && x[3] == 0x00 {
		return true
	}
	if len(x) >= 2 && x[0] == 0xFE && x[1] == 0xFF {
		return true
	}
	if len(x) >= 2 && x[0] == 0xFF && x[1] == 0xFE {
		return true
	}
	return false
}

// HC07Text: Text(raw, limit) <=> raw starts with a BOM or contains no binary data byte,
// for every header of length 0..maxlen, every byte value and every limit.
func HC07Text() {
	maxN := vChoice("maxlen", 4300)
	raw := vBytes("raw", 0, maxN)
	limit := vUint32("limit")
	got := Text(raw, limit)
	anyBin := false
	for _, b := range raw {
		if c07Bin[b] {
			anyBin = true
		}
	}
	want := c07HasBOM(raw) || !anyBin
	vAssert(got == want, "text-iff-bom-or-no-binary-byte")
	vReach("end")
}
