//go:build verif

package magic

import vcharset "github.com/gabriel-vasile/mimetype/internal/charset"

// c12Label returns k symbolic bytes over the charset-label alphabet [A-Za-z0-9._+-] and the
// expected (lower-cased) label.
func c12Label(k int) (label, want []byte) {
	label = vBytes("label", k, k)
	want = make([]byte, k)
	for i, c := range label {
		ok := ('a' <= c && c <= 'z') || ('A' <= c && c <= 'Z') || ('0' <= c && c <= '9') || c == '.' || c == '_' || c == '+' || c == '-'
		vAssume(ok)
		lc := c
		if 'A' <= c && c <= 'Z' {
			lc = c + 0x20
		}
		want[i] = lc
	}
	return label, want
}

func c12Case(s string, variant int) []byte {
	out := []byte(s)
	for i, c := range out {
		if 'a' <= c && c <= 'z' {
			if variant == 1 || (variant == 2 && i%2 == 0) {
				out[i] = c - 0x20
			}
		}
	}
	return out
}

func c12WS(tag string) []byte {
	b := vByte(tag)
	vAssume(b == ' ' || b == '\t' || b == '\n' || b == '\x0c' || b == '\r')
	return []byte{b}
}

func c12Same(got string, want []byte) bool {
	return vSameBytes([]byte(got), want)
}

// HC12HTML: the charset declared by a single <meta> is reported in lower case, for any label,
// quoting, attribute order, letter case and whitespace, behind any of the listed prologues.
func HC12HTML() {
	k := 1 + vChoice("labelLen", 8)
	label, want := c12Label(k)
	// labels that start with "utf-16" are the property's "utf-16 labels" (they map to utf-8, HC12UTF16);
	// the lower-casing claim is made for every other label
	if k >= 6 {
		vAssume(!(want[0] == 'u' && want[1] == 't' && want[2] == 'f' && want[3] == '-' && want[4] == '1' && want[5] == '6'))
	}
	cv := vChoice("case", 3)
	var in []byte
	bom := false
	switch vChoice("prologue", 9) {
	case 7: // a long comment: the declaration lies beyond the first 1024 bytes but well inside the examined header
		in = append(in, "<html><!--"...)
		for i := 0; i < 1100; i++ {
			in = append(in, byte('a'+i%26))
		}
		in = append(in, "-->"...)
	case 8: // an earlier meta that declares nothing but uses the same attribute names as a pragma
		in = append(in, "<meta http-equiv=\"X-UA-Compatible\" content=\"IE=edge\"><meta charset-hint=\"none\" name=\"charset\">"...)
	case 1:
		in = append(in, "<!DOCTYPE html>\n"...)
	case 2:
		in = append(in, "<!-- <meta charset=\"x-fake\"> -->"...)
	case 3:
		in = append(in, "<script>var m = '<meta charset=\"x-fake\">';</script>"...)
	case 4:
		in = append(in, "<meta name=\"viewport\" content=\"width=device-width\">"...)
	case 5:
		in = append(in, "<html><head><title>t</title>"...)
	case 6:
		in = append(in, 0xEF, 0xBB, 0xBF)
		in = append(in, "<html>"...)
		bom = true
	}
	in = append(in, '<')
	in = append(in, c12Case("meta", cv)...)
	in = append(in, c12WS("ws1")...)
	switch vChoice("syntax", 5) {
	case 0:
		in = append(in, c12Case("charset", cv)...)
		in = append(in, '=', '"')
		in = append(in, label...)
		in = append(in, '"')
	case 1:
		in = append(in, c12Case("charset", cv)...)
		in = append(in, '=', '\'')
		in = append(in, label...)
		in = append(in, '\'')
	case 2:
		in = append(in, c12Case("charset", cv)...)
		in = append(in, '=')
		in = append(in, label...)
		in = append(in, c12WS("ws2")...)
	case 3:
		in = append(in, c12Case("http-equiv", cv)...)
		in = append(in, "=\"Content-Type\""...)
		in = append(in, c12WS("ws2")...)
		in = append(in, c12Case("content", cv)...)
		in = append(in, "=\"text/html; charset="...)
		in = append(in, label...)
		in = append(in, '"')
	case 4:
		in = append(in, c12Case("content", cv)...)
		in = append(in, "=\"text/html;charset="...)
		in = append(in, label...)
		in = append(in, '"')
		in = append(in, c12WS("ws2")...)
		in = append(in, c12Case("http-equiv", cv)...)
		in = append(in, "='content-type'"...)
	}
	in = append(in, '>')
	in = append(in, "<p>x</p>"...)
	vWatch(in)
	got := vcharset.FromHTML(in)
	vAssert(vWritten() == 0, "input-not-written")
	if bom {
		vAssert(got == "utf-8", "bom-wins-over-meta")
	} else {
		vAssert(c12Same(got, want), "html-declared-charset-honoured")
	}
	vReach("end")
}

// HC12UTF16: utf-16 labels in an HTML meta map to utf-8.
func HC12UTF16() {
	labels := []string{"utf-16", "UTF-16", "utf-16le", "UTF-16BE", "Utf-16Le"}
	l := labels[vChoice("label", len(labels))]
	var in []byte
	if vChoice("syntax", 2) == 0 {
		in = append(in, "<meta charset=\""...)
		in = append(in, l...)
		in = append(in, "\">"...)
	} else {
		in = append(in, "<meta http-equiv=\"content-type\" content=\"text/html; charset="...)
		in = append(in, l...)
		in = append(in, "\">"...)
	}
	vAssert(vcharset.FromHTML(in) == "utf-8", "utf16-meta-maps-to-utf8")
	vReach("end")
}

// HC12XML: the encoding pseudo-attribute of an XML 1.0 declaration is reported in lower case.
func HC12XML() {
	k := 1 + vChoice("labelLen", 8)
	label, want := c12Label(k)
	var in []byte
	switch vChoice("lead", 3) {
	case 1:
		in = append(in, c12WS("ws0")...)
	case 2:
		in = append(in, ' ', '\n')
	}
	q := byte('"')
	if vChoice("quote", 2) == 1 {
		q = '\''
	}
	in = append(in, "<?xml version=\"1.0\" encoding="...)
	in = append(in, q)
	in = append(in, label...)
	in = append(in, q)
	if vChoice("trail", 2) == 1 {
		in = append(in, " standalone=\"yes\""...)
	}
	in = append(in, "?><a/>"...)
	vWatch(in)
	got := vcharset.FromXML(in)
	vAssert(vWritten() == 0, "input-not-written")
	vAssert(c12Same(got, want), "xml-declared-encoding-honoured")
	vAssert(XML(in, 0), "xml-prologue-detected-as-xml")
	vReach("end")
}

// HC12Markup: the markup detectors skip a UTF-8 BOM and leading whitespace and match tag names
// case-insensitively.
func HC12Markup() {
	cv := vChoice("case", 3)
	tags := []string{"<!doctype html", "<html", "<head", "<body", "<script", "<p", "<a", "<div"}
	tag := tags[vChoice("tag", len(tags))]
	var in []byte
	if vChoice("bom", 2) == 1 {
		in = append(in, 0xEF, 0xBB, 0xBF)
	}
	n := vChoice("leadingWS", 3)
	for i := 0; i < n; i++ {
		in = append(in, c12WS("ws")...)
	}
	in = append(in, c12Case(tag, cv)...)
	term := vByte("term")
	vAssume(term == ' ' || term == '>')
	in = append(in, term)
	in = append(in, "x"...)
	vAssert(HTML(in, 0), "html-markup-detected")
	vReach("end")
}

// HC12XMLUTF8: an XML declaration that says UTF-8 (any letter case, either quote) is honoured even
// when the body is not UTF-8 or carries bytes the plain-text sniffer dislikes (the declared label
// wins over sniffing).
func HC12XMLUTF8() {
	labels := []string{"UTF-8", "utf-8", "Utf-8"}
	l := labels[vChoice("label", len(labels))]
	q := byte('"')
	if vChoice("quote", 2) == 1 {
		q = '\''
	}
	var in []byte
	in = append(in, "<?xml version=\"1.0\" encoding="...)
	in = append(in, q)
	in = append(in, l...)
	in = append(in, q)
	in = append(in, "?><a>caf"...)
	b := vBytes("body", 1, 2)
	for _, c := range b {
		vAssume(c != '<' && c != '&' && c >= 0x20)
	}
	in = append(in, b...)
	in = append(in, "</a>"...)
	vAssert(vcharset.FromXML(in) == "utf-8", "xml-declared-utf8-honoured")
	vReach("end")
}
