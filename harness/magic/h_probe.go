//go:build verif

package magic

func oracleBin(b byte) bool {
	return b <= 0x08 || b == 0x0B || (0x0E <= b && b <= 0x1A) || (0x1C <= b && b <= 0x1F)
}

func HProbeText() {
	raw := vBytes("raw", 0, 4)
	got := Text(raw, 0)
	hasBom := false
	if len(raw) >= 2 && ((raw[0] == 0xFE && raw[1] == 0xFF) || (raw[0] == 0xFF && raw[1] == 0xFE)) {
		hasBom = true
	}
	if len(raw) >= 3 && raw[0] == 0xEF && raw[1] == 0xBB && raw[2] == 0xBF {
		hasBom = true
	}
	if len(raw) >= 4 && raw[0] == 0 && raw[1] == 0 && raw[2] == 0xFE && raw[3] == 0xFF {
		hasBom = true
	}
	anyBin := false
	for _, b := range raw {
		if oracleBin(b) {
			anyBin = true
		}
	}
	vAssert(got == (hasBom || !anyBin), "text-iff-oracle")
	vReach("end")
}
