//go:build verif

package magic

// Reference recogniser for JSON, independent of internal/json: a three-valued recursive
// descent over bytes. strict=true is (a subset of) RFC 8259; strict=false adds exactly the
// scanner's documented lexical leniencies (liberal number spelling, raw control bytes in
// strings, one trailing comma before a closing bracket).

const (
	jRej = 0 // not a prefix of any document
	jAcc = 1 // a complete value was consumed
	jOut = 2 // input ended inside the value (it is a viable prefix)
)

func jIsWS(b byte) bool    { return b == ' ' || b == '\t' || b == '\r' || b == '\n' }
func jIsDigit(b byte) bool { return '0' <= b && b <= '9' }
func jIsHex(b byte) bool {
	return ('0' <= b && b <= '9') || ('a' <= b && b <= 'f') || ('A' <= b && b <= 'F')
}

func jSkipWS(x []byte, i int) int {
	for i < len(x) && jIsWS(x[i]) {
		i++
	}
	return i
}

// jString: x[i] is the byte after the opening quote.
func jString(x []byte, i int, strict bool) (int, int) {
	for i < len(x) {
		c := x[i]
		i++
		if c == '"' {
			return i, jAcc
		}
		if c == '\\' {
			if i >= len(x) {
				return i, jOut
			}
			e := x[i]
			if e == '"' || e == '\\' || e == '/' || e == 'b' || e == 'f' || e == 'n' || e == 'r' || e == 't' {
				i++
				continue
			}
			if e == 'u' {
				i++
				for k := 0; k < 4; k++ {
					if i >= len(x) {
						return i, jOut
					}
					if !jIsHex(x[i]) {
						return i, jRej
					}
					i++
				}
				continue
			}
			return i, jRej
		}
		if strict && (c < 0x20 || c > 0x7E) {
			// the strict language is deliberately a subset of RFC 8259: printable ASCII only
			return i, jRej
		}
	}
	return i, jOut
}

// jNumber: x[i] is the first byte of the number.
func jNumber(x []byte, i int, strict bool) (int, int) {
	if i < len(x) && x[i] == '-' {
		i++
	}
	if i >= len(x) {
		return i, jOut
	}
	nInt := 0
	firstZero := false
	for i < len(x) && jIsDigit(x[i]) {
		if nInt == 0 && x[i] == '0' {
			firstZero = true
		}
		nInt++
		i++
	}
	if strict {
		if nInt == 0 && i < len(x) {
			return i, jRej
		}
		if firstZero && nInt > 1 {
			return i, jRej
		}
	}
	if i >= len(x) {
		if nInt > 0 {
			return i, jAcc // complete so far; may also continue
		}
		return i, jOut
	}
	nFrac := 0
	if x[i] == '.' {
		i++
		for i < len(x) && jIsDigit(x[i]) {
			nFrac++
			i++
		}
		if i >= len(x) {
			if strict && nFrac == 0 {
				return i, jOut
			}
			if nInt+nFrac > 0 {
				return i, jAcc
			}
			return i, jOut
		}
		if strict && nFrac == 0 {
			return i, jRej
		}
	}
	if nInt+nFrac == 0 {
		return i, jRej
	}
	if x[i] == 'e' || x[i] == 'E' {
		i++
		if i >= len(x) {
			return i, jOut
		}
		if x[i] == '+' || x[i] == '-' {
			i++
		}
		nExp := 0
		for i < len(x) && jIsDigit(x[i]) {
			nExp++
			i++
		}
		if nExp == 0 {
			if i >= len(x) {
				return i, jOut
			}
			return i, jRej
		}
	}
	return i, jAcc
}

func jLiteral(x []byte, i int, lit string) (int, int) {
	for k := 0; k < len(lit); k++ {
		if i >= len(x) {
			return i, jOut
		}
		if x[i] != lit[k] {
			return i, jRej
		}
		i++
	}
	return i, jAcc
}

// jValue parses one value starting at x[i] (no leading whitespace). first receives the token kind
// of the value: 'o', 'a' or 's' (scalar).
func jValue(x []byte, i int, strict bool, depth int) (int, int) {
	if i >= len(x) {
		return i, jOut
	}
	if depth > 64 {
		return i, jRej
	}
	switch x[i] {
	case '"':
		return jString(x, i+1, strict)
	case '[':
		i++
		i = jSkipWS(x, i)
		if i >= len(x) {
			return i, jOut
		}
		if x[i] == ']' {
			return i + 1, jAcc
		}
		for {
			var st int
			i, st = jValue(x, i, strict, depth+1)
			if st != jAcc {
				return i, st
			}
			i = jSkipWS(x, i)
			if i >= len(x) {
				return i, jOut
			}
			if x[i] == ']' {
				return i + 1, jAcc
			}
			if x[i] != ',' {
				return i, jRej
			}
			i++
			i = jSkipWS(x, i)
			if i >= len(x) {
				return i, jOut
			}
			if x[i] == ']' {
				if strict {
					return i, jRej
				}
				return i + 1, jAcc // one trailing comma
			}
		}
	case '{':
		i++
		i = jSkipWS(x, i)
		if i >= len(x) {
			return i, jOut
		}
		if x[i] == '}' {
			return i + 1, jAcc
		}
		for {
			if x[i] != '"' {
				return i, jRej
			}
			var st int
			i, st = jString(x, i+1, strict)
			if st != jAcc {
				return i, st
			}
			i = jSkipWS(x, i)
			if i >= len(x) {
				return i, jOut
			}
			if x[i] != ':' {
				return i, jRej
			}
			i++
			i = jSkipWS(x, i)
			if i >= len(x) {
				return i, jOut
			}
			i, st = jValue(x, i, strict, depth+1)
			if st != jAcc {
				return i, st
			}
			i = jSkipWS(x, i)
			if i >= len(x) {
				return i, jOut
			}
			if x[i] == '}' {
				return i + 1, jAcc
			}
			if x[i] != ',' {
				return i, jRej
			}
			i++
			i = jSkipWS(x, i)
			if i >= len(x) {
				return i, jOut
			}
			if x[i] == '}' {
				if strict {
					return i, jRej
				}
				return i + 1, jAcc
			}
		}
	case 't':
		return jLiteral(x, i, "true")
	case 'f':
		return jLiteral(x, i, "false")
	case 'n':
		return jLiteral(x, i, "null")
	}
	return jNumber(x, i, strict)
}

// jDoc classifies a whole input: ws* (object|array) ws*. open receives the index of the
// opening bracket (or -1).
func jDoc(x []byte, strict bool) (status int, open int) {
	i := jSkipWS(x, 0)
	if i >= len(x) || (x[i] != '{' && x[i] != '[') {
		return jRej, -1
	}
	open = i
	j, st := jValue(x, i, strict, 0)
	if st != jAcc {
		return st, open
	}
	j = jSkipWS(x, j)
	if j < len(x) {
		return jRej, open
	}
	return jAcc, open
}

// jAnyValueLine: a complete relaxed value of any kind surrounded by optional whitespace.
func jAnyValueLine(x []byte) (ok bool, objOrArr bool) {
	i := jSkipWS(x, 0)
	if i >= len(x) {
		return false, false
	}
	objOrArr = x[i] == '{' || x[i] == '['
	j, st := jValue(x, i, false, 0)
	if st != jAcc {
		return false, objOrArr
	}
	j = jSkipWS(x, j)
	return j == len(x), objOrArr
}

// HC09Whole: a document examined in full that is reported as JSON is a relaxed JSON object or array.
func HC09Whole() {
	maxN := vChoice("maxlen", 64)
	x := vBytes("x", 0, maxN)
	mode := vChoice("mode", 2)
	var limit uint32
	if mode == 1 {
		limit = uint32(len(x)) + 1
	}
	got := JSON(x, limit)
	if got {
		st, _ := jDoc(x, false)
		vAssert(st == jAcc, "whole-json-implies-wellformed")
	}
	vReach("end")
}

// HC09Prefix: a header cut at the limit that is reported as JSON is a prefix of a relaxed document.
func HC09Prefix() {
	maxN := vChoice("maxlen", 64)
	x := vBytes("x", 1, maxN)
	got := JSON(x, uint32(len(x)))
	if got {
		st, _ := jDoc(x, false)
		vAssert(st != jRej, "prefix-json-implies-viable-prefix")
	}
	vReach("end")
}

// HC09Sub: the JSON sub-type checks obey the same implication (whole mode).
func HC09Sub() {
	maxN := vChoice("maxlen", 64)
	x := vBytes("x", 0, maxN)
	which := vChoice("sub", 3)
	var got bool
	switch which {
	case 0:
		got = GeoJSON(x, 0)
	case 1:
		got = HAR(x, 0)
	case 2:
		got = GLTF(x, 0)
	}
	if got {
		st, _ := jDoc(x, false)
		vAssert(st == jAcc, "subtype-implies-wellformed")
	}
	vReach("end")
}

// HC09SubTail: the sub-type detectors on inputs that can actually satisfy them: a concrete prefix that
// already holds the deciding member, followed by a tail of arbitrary bytes (all 256 values). Examined in full,
// a positive verdict implies the whole input is a well-formed (relaxed) document; examined as a prefix
// (len == limit) it implies the input is a viable prefix.
func HC09SubTail() {
	maxN := vChoice("maxlen", 64)
	pres := []string{`{"type":"Point"`, `{"type":"Feature","a":[1`, `{"log":{"version":"1"`, `{"log":{"entries":[`, `{"asset":{"version":"2.0"`, `{"a":{"b":[]},"type":"Polygon"`}
	pre := pres[vChoice("prefix", len(pres))]
	tail := vBytes("tail", 0, maxN)
	x := append([]byte(pre), tail...)
	which := vChoice("sub", 3)
	whole := vChoice("mode", 2) == 0
	limit := uint32(0)
	if !whole {
		limit = uint32(len(x))
	}
	var got bool
	switch which {
	case 0:
		got = GeoJSON(x, limit)
	case 1:
		got = HAR(x, limit)
	case 2:
		got = GLTF(x, limit)
	}
	if got {
		st, _ := jDoc(x, false)
		if whole {
			vAssert(st == jAcc, "subtype-tail-implies-wellformed")
		} else {
			vAssert(st != jRej, "subtype-tail-implies-viable-prefix")
		}
	}
	vReach("end")
}

// HC08: every strict document is accepted in full and at every cut after the opening bracket.
func HC08() {
	maxN := vChoice("maxlen", 64)
	x := vBytes("x", 2, maxN)
	st, open := jDoc(x, true)
	vAssume(st == jAcc)
	vAssert(JSON(x, 0), "whole-limit0")
	vAssert(JSON(x, uint32(len(x))+1), "whole-limit-beyond")
	vAssert(JSON(x, 0xFFFFFFFF), "whole-limit-max")
	for c := open + 1; c <= len(x); c++ {
		vAssert(JSON(x[:c], uint32(c)), "cut")
	}
	vReach("end")
}

// HC09Alpha: the same two implications as HC09Whole / HC09Prefix on longer inputs restricted to the
// structural alphabet (quotes, escapes, separators, brackets, one digit, one letter, t, space).
func HC09Alpha() {
	maxN := vChoice("maxlen", 64)
	x := vBytes("x", 1, maxN)
	for _, c := range x {
		vAssume(c == '[' || c == ']' || c == '{' || c == '}' || c == '"' || c == '\\' || c == ',' || c == ':' || c == '1' || c == 'a' || c == 't' || c == ' ')
	}
	vAssume(x[0] == '[' || x[0] == '{')
	if vChoice("mode", 2) == 0 {
		if JSON(x, 0) {
			st, _ := jDoc(x, false)
			vAssert(st == jAcc, "alpha-whole-json-implies-wellformed")
		}
	} else {
		if JSON(x, uint32(len(x))) {
			st, _ := jDoc(x, false)
			vAssert(st != jRej, "alpha-prefix-json-implies-viable-prefix")
		}
	}
	vReach("end")
}
