//go:build verif

package magic

import (
	vbufio "bufio"
	vstrings "strings"
)

// HC04CsvPool: sv with a fresh pooled reader and with a recycled reader left in various states by
// an earlier use (partially read, at EOF, with a pending unread byte, large buffered junk) gives
// the same verdict: the pooled bufio.Reader does not leak into the next detection.
func HC04CsvPool() {
	maxN := vChoice("maxlen", 64)
	raw := vBytes("raw", 0, maxN)
	limit := vUint32("limit")
	delim := vChoice("delim", 2)
	run := func() bool {
		if delim == 0 {
			return Csv(raw, limit)
		}
		return Tsv(raw, limit)
	}
	a := run()
	// drain whatever run 1 returned to the pool, then seed it with a dirty reader
	readerPool.Get()
	junk := vBytes("junk", 3, 3)
	br := vbufio.NewReaderSize(vstrings.NewReader("q,\"r\n"+string(junk)+"\n1,2,3,4\n"), 16)
	switch vChoice("dirty", 4) {
	case 0: // partially consumed
		br.ReadByte()
		br.ReadByte()
	case 1: // pending unread byte
		br.ReadByte()
		br.UnreadByte()
	case 2: // read to EOF: sticky error state
		for {
			if _, err := br.ReadByte(); err != nil {
				break
			}
		}
	case 3: // peeked, nothing consumed
		br.Peek(4)
	}
	readerPool.Put(br)
	b := run()
	vAssert(a == b, "same-verdict-with-recycled-reader")
	vReach("end")
}
