//go:build verif

package mimetype

// HC10Verdict: end-to-end sub-type verdicts of Detect on JSON objects assembled from symbolic
// choices: the deciding member (or a near miss) at every position among up to two siblings of
// nine shapes (scalars, empty and non-empty arrays, nested objects re-using the key names), four
// whitespace layouts including whitespace after the deciding value, examined whole and cut
// right after the deciding member.
func HC10Verdict() {
	type dec struct {
		member string
		want   int // 0 json, 1 geo, 2 har, 3 gltf
	}
	geoNames := []string{"Feature", "FeatureCollection", "Point", "LineString", "Polygon", "MultiPoint", "MultiLineString", "MultiPolygon", "GeometryCollection"}
	var decs []dec
	decs = append(decs, dec{"", 0})
	for _, g := range geoNames {
		decs = append(decs, dec{`"type":WS"` + g + `"WS`, 1})
	}
	decs = append(decs,
		dec{`"type":"Features"`, 0}, dec{`"Type":"Point"`, 0}, dec{`"x":{"type":"Point"}`, 0}, dec{`"type":["Point"]`, 0},
		dec{`"log":{"version":WS"1.2"WS}`, 2}, dec{`"log":{"creator":{"name":"x"}}`, 2}, dec{`"log":WS{"pages":[1],"entries":[]}`, 2},
		dec{`"log":"version"`, 0}, dec{`"log":{"other":1}`, 0}, dec{`"x":{"log":{"version":1}}`, 0},
		dec{`"asset":{"version":WS"2.0"WS}`, 3}, dec{`"asset":{"generator":"g","version":"1.0"}`, 3},
		dec{`"asset":{"version":"3.0"}`, 0}, dec{`"asset":{"version":2.0}`, 0}, dec{`"version":"2.0"`, 0},
	)
	d := decs[vChoice("deciding", len(decs))]
	wss := []string{"", " ", "\n  ", "\r\n"}
	ws := wss[vChoice("ws", len(wss))]
	sibs := []string{`"a":1`, `"b":"xFILL"`, `"c":[]`, `"d":[1]`, `"e":[1,[2,3]]`, `"f":{}`, `"g":{"type":"Point","log":{"version":1},"asset":{"version":"2.0"}}`, `"h":[{"type":"Feature"}]`, `"types":"Point"`}
	nsib := vChoice("siblings", 3)
	pos := vChoice("position", nsib+1)
	var members []string
	for i := 0; i < nsib; i++ {
		members = append(members, sibs[vChoice("sibling", len(sibs))])
	}
	var doc []byte
	doc = append(doc, '{')
	doc = append(doc, ws...)
	endDeciding := 0
	idx := 0
	emit := func(m string) {
		if idx > 0 {
			doc = append(doc, ',')
			doc = append(doc, ws...)
		}
		idx++
		for i := 0; i < len(m); i++ {
			switch {
			case i+1 < len(m) && m[i] == 'W' && m[i+1] == 'S':
				doc = append(doc, ws...)
				i++
			case i+3 < len(m) && m[i:i+4] == "FILL":
				f := vByte("fill")
				vAssume(f >= 0x20 && f != '"' && f != '\\' && f < 0x7F)
				doc = append(doc, f)
				i += 3
			default:
				doc = append(doc, m[i])
			}
		}
	}
	for i := 0; i <= nsib; i++ {
		if i == pos && d.member != "" {
			emit(d.member)
			endDeciding = len(doc)
		}
		if i < nsib {
			emit(members[i])
		}
	}
	doc = append(doc, ws...)
	doc = append(doc, '}')
	doc = append(doc, '\n')
	wantType := [4]string{"application/json", "application/geo+json", "application/json", "model/gltf+json"}[d.want]
	wantExt := [4]string{".json", ".geojson", ".har", ".gltf"}[d.want]
	old := readLimit
	r := Detect(doc)
	vAssert(r.String() == wantType && r.Extension() == wantExt, "subtype-verdict-whole")
	if d.want != 0 && endDeciding+1 < len(doc) {
		// cut right after the deciding member (one more byte so that its value is terminated)
		SetLimit(uint32(endDeciding + 1))
		rc := Detect(doc)
		vAssert(rc.String() == wantType && rc.Extension() == wantExt, "subtype-verdict-cut-after-deciding-member")
		SetLimit(old)
	}
	vReach("end")
}
