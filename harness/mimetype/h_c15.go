//go:build verif

package mimetype

// c15Names lists every registered type and alias with the node it belongs to.
type c15Name struct {
	name string
	node *MIME
}

func c15Names() []c15Name {
	var out []c15Name
	for _, n := range root.flatten() {
		out = append(out, c15Name{n.mime, n})
		for _, a := range n.aliases {
			out = append(out, c15Name{a, n})
		}
	}
	return out
}

func c15WS(tag string, n int) []byte {
	b := vBytes(tag, n, n)
	for _, c := range b {
		vAssume(c == ' ' || c == '\t' || c == '\r' || c == '\n')
	}
	return b
}

func c15Token(tag string, n int) []byte {
	b := vBytes(tag, n, n)
	for _, c := range b {
		vAssume(('a' <= c && c <= 'z') || ('A' <= c && c <= 'Z') || ('0' <= c && c <= '9') || c == '-' || c == '_' || c == '.' || c == '+')
	}
	return b
}

// c15Decorate spells name in one of eight decoration shapes (index shape): leading/trailing
// whitespace of 0..2 symbolic bytes, three letter-case variants, and an optional plain or quoted
// parameter made of symbolic token bytes.
func c15Decorate(name string, tag string, shape int) string {
	type sh struct{ lead, cv, param, trail int }
	shapes := []sh{{0, 0, 0, 0}, {1, 1, 0, 0}, {2, 2, 0, 1}, {0, 1, 1, 0}, {1, 0, 2, 2}, {0, 2, 1, 1}, {2, 1, 2, 0}, {0, 0, 0, 2}, {0, 0, 3, 0}, {1, 1, 4, 1}}
	h := shapes[shape%len(shapes)]
	var out []byte
	out = append(out, c15WS(tag+".lead", h.lead)...)
	for i := 0; i < len(name); i++ {
		c := name[i]
		if 'a' <= c && c <= 'z' && (h.cv == 1 || (h.cv == 2 && i%2 == 1)) {
			c -= 0x20
		}
		out = append(out, c)
	}
	switch h.param {
	case 1: // ; token=token
		out = append(out, ';', ' ')
		out = append(out, c15Token(tag+".pk", 1)...)
		out = append(out, '=')
		out = append(out, c15Token(tag+".pv", 2)...)
	case 3: // whitespace between the subtype and the separator: "type/subtype ; k=v"
		out = append(out, c15WS(tag+".mid", 1)...)
		out = append(out, ';', ' ')
		out = append(out, c15Token(tag+".pk", 1)...)
		out = append(out, '=')
		out = append(out, c15Token(tag+".pv", 1)...)
	case 4: // a bare separator after whitespace: "type/subtype ;"
		out = append(out, c15WS(tag+".mid", 2)...)
		out = append(out, ';')
	case 2: // ;token="quoted"
		out = append(out, ';')
		out = append(out, c15Token(tag+".pk", 2)...)
		out = append(out, '=', '"')
		out = append(out, c15Token(tag+".pv", 1)...)
		out = append(out, ' ', '"')
	}
	out = append(out, c15WS(tag+".trail", h.trail)...)
	return string(out)
}

func c15Lower(b byte) byte {
	if 'A' <= b && b <= 'Z' {
		return b + 0x20
	}
	return b
}

// HC15Decorated: every registered name resolves through Lookup to a format that Is that name in
// any decoration (case, surrounding whitespace, parameters); EqualsAny agrees.
func HC15Decorated() {
	names := c15Names()
	nm := names[vChoice("name", len(names))]
	l := Lookup(nm.name)
	vAssert(l != nil, "lookup-finds-registered-name")
	if l == nil {
		return
	}
	vAssert(l.Is(nm.name), "lookup-result-is-name")
	shape := vChoice("shape", 10)
	d1 := c15Decorate(nm.name, "d1", shape)
	vAssert(l.Is(d1), "is-ignores-decoration")
	d2 := c15Decorate(nm.name, "d2", shape+3)
	vAssert(EqualsAny(d1, "x/y", d2), "equalsany-ignores-decoration")
	vAssert(EqualsAny(nm.name, d1), "equalsany-plain-vs-decorated")
	vAssert(EqualsAny(d2, nm.name), "equalsany-decorated-vs-plain")
	vReach("end")
}

// HC15Substituted: Is of a spelling with one arbitrary (token or '/') byte substituted holds only if
// the spelling still equals the type or one of its aliases after lower-casing.
func HC15Substituted() {
	names := c15Names()
	nm := names[vChoice("name", len(names))]
	p := vChoice("pos", len(nm.name))
	c := vByte("c")
	vAssume(('a' <= c && c <= 'z') || ('A' <= c && c <= 'Z') || ('0' <= c && c <= '9') || c == '-' || c == '_' || c == '.' || c == '+' || c == '/')
	s := []byte(nm.name)
	s[p] = c
	got := nm.node.Is(string(s))
	if got {
		ok := false
		cands := append([]string{nm.node.mime}, nm.node.aliases...)
		for _, cand := range cands {
			if len(cand) != len(s) {
				continue
			}
			same := true
			for i := range s {
				if c15Lower(s[i]) != cand[i] {
					same = false
				}
			}
			if same {
				ok = true
			}
		}
		vAssert(ok, "is-only-for-type-or-alias")
	} else {
		// if the substituted byte is the original letter in either case, Is must hold
		vAssert(c15Lower(c) != nm.name[p], "is-holds-for-case-variant")
	}
	vReach("end")
}
