//go:build verif

package mimetype

// L1 infrastructure: the real match / clone / cloneHierarchy / lookup / Extend run on the real
// registered tree, with every node's detector replaced by a symbolic verdict that is the same
// on every call and that checks it receives exactly the (raw, limit) given to match.

type l1State struct {
	nodes    []*MIME
	index    map[*MIME]int
	asked    []bool
	verdict  []bool
	order    []int // consultation order
	raw      []byte
	limit    uint32
	argsOK   bool // every detector call received exactly (raw, limit)
	orderOK  bool // every node was consulted only after all its ancestors accepted
	onceOK   bool // no node was consulted twice
	extNodes []*MIME
	epoch    int // input number: every input has its own verdict vector
	// capture mode (L2 harnesses): detectors reject everything and record what the first one received
	allFalse bool
	captured bool
	capRaw   []byte
	capLimit uint32
	calls    int
}

var l1 *l1State

func l1Itoa(i int) string {
	if i == 0 {
		return "0"
	}
	var b [12]byte
	p := len(b)
	for i > 0 {
		p--
		b[p] = byte('0' + i%10)
		i /= 10
	}
	return string(b[p:])
}

func l1SameSlice(a, b []byte) bool {
	if len(a) != len(b) {
		return false
	}
	if len(a) == 0 {
		return true
	}
	return &a[0] == &b[0]
}

func (s *l1State) detectorFor(i int) func([]byte, uint32) bool {
	return func(raw []byte, limit uint32) bool {
		if s.allFalse {
			s.calls++
			if !s.captured {
				s.captured, s.capRaw, s.capLimit = true, raw, limit
			} else if !l1SameSlice(raw, s.capRaw) || limit != s.capLimit {
				s.argsOK = false
			}
			return false
		}
		if !l1SameSlice(raw, s.raw) || limit != s.limit {
			s.argsOK = false
		}
		n := s.nodes[i]
		for p := n.parent; p != nil && p.parent != nil; p = p.parent {
			j, ok := s.index[p]
			if !ok || !s.asked[j] || !s.verdict[j] {
				s.orderOK = false
			}
		}
		if s.asked[i] {
			s.onceOK = false
			return s.verdict[i]
		}
		s.asked[i] = true
		s.verdict[i] = vBool(s.detName(i))
		s.order = append(s.order, i)
		return s.verdict[i]
	}
}

func (s *l1State) detName(i int) string {
	if s.epoch == 0 {
		return "det" + l1Itoa(i)
	}
	return "in" + l1Itoa(s.epoch) + "det" + l1Itoa(i)
}

// nextInput starts a new input: a fresh, independent verdict vector.
func (s *l1State) nextInput(raw []byte) {
	s.epoch++
	for i := range s.asked {
		s.asked[i] = false
		s.verdict[i] = false
	}
	s.order = nil
	s.raw = raw
}

// l1Setup stubs every detector of the current tree (root excluded: it accepts everything).
func l1Setup() *l1State {
	s := &l1State{argsOK: true, orderOK: true, onceOK: true, index: map[*MIME]int{}}
	s.nodes = root.flatten()
	s.asked = make([]bool, len(s.nodes)+8)
	s.verdict = make([]bool, len(s.nodes)+8)
	for i, n := range s.nodes {
		s.index[n] = i
		if n == root {
			continue
		}
		n.detector = s.detectorFor(i)
	}
	l1 = s
	return s
}

// register adds a node created by Extend to the bookkeeping and returns its stub detector.
func (s *l1State) newExtDetector() (int, func([]byte, uint32) bool) {
	i := len(s.nodes)
	s.nodes = append(s.nodes, nil)
	return i, s.detectorFor(i)
}

func (s *l1State) bind(i int, n *MIME) {
	s.nodes[i] = n
	s.index[n] = i
}

// verdictOf returns the (memoised) symbolic verdict of node n, asking for it if the walk did not.
func (s *l1State) verdictOf(n *MIME) bool {
	i := s.index[n]
	if !s.asked[i] {
		s.asked[i] = true
		s.verdict[i] = vBool(s.detName(i))
	}
	return s.verdict[i]
}

// oracleWalk is the independent first-match deepest-path walk over the tree's children lists.
func (s *l1State) oracleWalk() *MIME {
	n := root
	for {
		var next *MIME
		for _, c := range n.children {
			if s.verdictOf(c) {
				next = c
				break
			}
		}
		if next == nil {
			return n
		}
		n = next
	}
}

// l1BareType strips parameters ("; charset=...") from a result's string.
func l1BareType(s string) string {
	for i := 0; i < len(s); i++ {
		if s[i] == ';' {
			return s[:i]
		}
	}
	return s
}

// l1CheckChain compares a result with the static node n level by level.
func l1CheckChain(res *MIME, n *MIME, label string) {
	vAssert(res != nil, label+":non-nil")
	vAssert(l1BareType(res.mime) == n.mime, label+":type")
	vAssert(res.extension == n.extension, label+":extension")
	r, p := res.parent, n.parent
	for p != nil {
		vAssert(r != nil, label+":chain-too-short")
		if r == nil {
			return
		}
		vAssert(r.mime == p.mime, label+":ancestor-type")
		for k := 0; k < len(r.mime); k++ {
			vAssert(r.mime[k] != ';', label+":ancestor-bare")
		}
		vAssert(r.extension == p.extension, label+":ancestor-extension")
		r, p = r.parent, p.parent
	}
	vAssert(r == nil, label+":chain-ends-at-root")
}

// HC03Walk: the reported hierarchy is the first-match deepest path (built-in tree, or the tree
// enlarged by one or two Extend calls at symbolic attachment points).
func HC03Walk() {
	s := l1Setup()
	nExt := vChoice("extends", 3)
	for e := 0; e < nExt; e++ {
		var at *MIME
		if nExt == 1 && vChoice("tier", 2) == 1 {
			at = s.nodes[vChoice("attach", len(s.nodes))]
		} else if nExt == 1 {
			cands := []*MIME{root, text, zip, json, ole, html, xml, png, tar, docx, geoJSON, ogg}
			at = cands[vChoice("attach", len(cands))]
		} else {
			// two extensions: attachment points among a representative set, including the first extension
			cands := []*MIME{root, text, zip, json, ole}
			if e == 1 {
				cands = append(cands, s.extNodes[0])
			}
			at = cands[vChoice("attach", len(cands))]
		}
		i, det := s.newExtDetector()
		at.Extend(det, "application/x-verif-ext"+l1Itoa(e), ".vx"+l1Itoa(e))
		ext := at.children[0]
		s.bind(i, ext)
		s.extNodes = append(s.extNodes, ext)
		vAssert(ext.parent == at, "extend:parent")
	}
	// through the public entry point: Detect must hand the whole tree walk (root's children first)
	// exactly its input and the current limit, also for empty and nil input
	iv := vChoice("input", 3)
	in := [][]byte{[]byte("x"), {}, nil}[iv]
	lim := []uint32{3072, 0, 1}[iv]
	old := readLimit
	SetLimit(lim)
	s.raw, s.limit = in, lim
	res := Detect(in)
	SetLimit(old)
	want := s.oracleWalk()
	l1CheckChain(res, want, "walk")
	// every ancestor of the reported node matched; no child of it matched
	for p := want; p != nil && p != root; p = p.parent {
		vAssert(s.verdictOf(p), "walk:ancestors-matched")
	}
	for _, c := range want.children {
		vAssert(!s.verdictOf(c), "walk:no-child-matched")
	}
	vAssert(s.argsOK, "walk:detectors-get-match-arguments")
	vAssert(s.orderOK, "walk:ancestors-consulted-first")
	vAssert(s.onceOK, "walk:consulted-once")
	// C07, tree half: text/plain in the chain iff the text detector accepted; text is the last root child
	inChain := false
	for p := want; p != nil; p = p.parent {
		if p == text {
			inChain = true
		}
	}
	if inChain {
		vAssert(s.verdictOf(text), "text-in-chain-implies-text-detector")
	}
	if s.verdictOf(text) {
		vAssert(res.parent != nil, "text-detector-implies-not-bare-root")
	}
	vAssert(root.children[len(root.children)-1] == text, "text-is-last-root-child")
	// C02, structure half: parameters only on the three charset-bearing text types; ancestors bare
	hasParam := false
	for i := 0; i < len(res.mime); i++ {
		if res.mime[i] == ';' {
			hasParam = true
		}
	}
	if hasParam {
		bt := l1BareType(res.mime)
		vAssert(bt == "text/plain" || bt == "text/html" || bt == "text/xml", "parameter-only-on-text-types")
	}
	depth := 0
	for r := res; r != nil; r = r.parent {
		depth++
		if r.parent == nil {
			vAssert(r.mime == "application/octet-stream", "chain-ends-at-octet-stream")
		}
	}
	vAssert(depth <= 8, "chain-finite")
	vReach("end")
}

// l1DFSFind is the independent oracle for Lookup: the first node in pre-order (a node before its
// children, children in priority order) whose type or one of whose aliases equals name.
func l1DFSFind(n *MIME, name string) *MIME {
	if n.mime == name {
		return n
	}
	for _, a := range n.aliases {
		if a == name {
			return n
		}
	}
	for _, c := range n.children {
		if f := l1DFSFind(c, name); f != nil {
			return f
		}
	}
	return nil
}

// HC03Seq: two detections of two different inputs (independent verdict vectors) in one process:
// the second result is again exactly the first-match path for the second input, with the
// extension and ancestors of the node the walk ended on (several registered nodes share a MIME
// string), and the value returned first keeps its chain.
func HC03Seq() {
	s := l1Setup()
	in1, in2 := []byte("x"), []byte("yz")
	old := readLimit
	SetLimit(3072)
	s.raw, s.limit = in1, 3072
	r1 := Detect(in1)
	want1 := s.oracleWalk()
	l1CheckChain(r1, want1, "first")
	snap1 := c14Snapshot(r1)
	s.nextInput(in2)
	r2 := Detect(in2)
	want2 := s.oracleWalk()
	SetLimit(old)
	l1CheckChain(r2, want2, "second")
	vAssert(c14Same(c14Snapshot(r1), snap1), "first-result-unaffected-by-second-detection")
	vAssert(s.argsOK && s.orderOK, "second:detectors-get-match-arguments")
	vReach("end")
}
