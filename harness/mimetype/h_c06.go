//go:build verif

package mimetype

import (
	vbytes "bytes"
	vio2 "io"
	vsync "sync"
)

func vioEOF() error { return vio2.EOF }

func c06Reject([]byte, uint32) bool { return false }

// HC06Pairs: lock discipline of every pair of public operations. Symbolically the two operations
// run one after the other as "thread 1" and "thread 2" while the executor logs every access to a
// cell that is not owned by the running thread together with the locks held; a pair of accesses
// from different threads to the same cell, one of them a write, without a common lock held
// exclusively by one side (and not both atomic) is a data race under some schedule. Natively
// (replay) the same pair runs concurrently in goroutines under the Go race detector.
func HC06Pairs() {
	inputs := []string{`{"a":[1,2],"b":"x"}`, "a,b\n1,2\n3,4\n", "<html><head><meta charset=\"utf-8\"></head>", "\x89PNG\x0d\x0a\x1a\x0a0000", "plain text"}
	in := []byte(inputs[vChoice("input", len(inputs))])
	// sequential set-up: one extension registered with a caller-owned alias slice of given len/cap
	nal := vChoice("aliasLen", 3)
	spare := vChoice("aliasSpare", 2)
	aliases := make([]string, nal, nal+spare)
	for i := range aliases {
		aliases[i] = "application/x-verif-c06-alias" + l1Itoa(i)
	}
	Extend(c06Reject, "application/x-verif-c06", ".c06", aliases...)
	res := Detect(in)
	ops := []func(){
		func() { Detect(in) },
		func() { DetectReader(vbytes.NewReader(in)) },
		func() { Lookup("application/x-verif-c06") },
		func() { Lookup("text/html") },
		func() { Lookup("application/x-verif-none") },
		func() { SetLimit(1024) },
		func() { Extend(c06Reject, "application/x-verif-c06b", ".b") },
		func() { text.Extend(c06Reject, "text/x-verif-c06c", ".c", "text/x-verif-c06d") },
		func() { _ = res.String(); _ = res.Extension(); _ = res.Parent(); _ = res.Is("text/plain") },
		func() {
			// accessors of a looked-up extension whose alias slice is the caller's (spare capacity)
			if l := Lookup("application/x-verif-c06"); l != nil {
				_ = l.Is("application/x-verif-other")
				_ = l.String()
				_ = l.Parent()
			}
		},
	}
	a := vChoice("opA", len(ops))
	b := vChoice("opB", len(ops))
	if vSymbolic() {
		vThread(1)
		ops[a]()
		vThread(2)
		ops[b]()
		vThread(0)
	} else {
		for i := 0; i < 200; i++ {
			var wg vsync.WaitGroup
			wg.Add(2)
			go func() { defer wg.Done(); ops[a]() }()
			go func() { defer wg.Done(); ops[b]() }()
			wg.Wait()
		}
		// no registration may be lost: count the nodes the concurrent Extend calls added
		want := 0
		for _, o := range []int{a, b} {
			if o == 6 || o == 7 {
				want += 200
			}
		}
		got := 0
		for _, n := range root.flatten() {
			if n.mime == "application/x-verif-c06b" || n.mime == "text/x-verif-c06c" {
				got++
			}
		}
		vAssert(got == want, "no-lost-registration")
	}
	vReach("end")
}

// c06FlipReader changes the read limit from inside its first Read: the limit flips while a
// detection is in flight, at a point of the harness's choosing rather than the scheduler's.
type c06FlipReader struct {
	data  []byte
	pos   int
	to    uint32
	done  bool
}

func (r *c06FlipReader) Read(p []byte) (int, error) {
	if !r.done {
		r.done = true
		SetLimit(r.to)
	}
	if r.pos >= len(r.data) {
		return 0, vioEOF()
	}
	n := copy(p, r.data[r.pos:])
	r.pos += n
	return n, nil
}

// HC06LimitFlip: a detection during which the limit changes returns what a sequential execution
// would have returned for the old or for the new limit (one load of the limit per detection).
func HC06LimitFlip() {
	inputs := []string{"a,b\n1,2\n3,4\n5,6\n", "{\"a\":1}\n{\"b\":2}\n{\"c\":3}\n", "<html><body>x</body></html>", "a\tb\n1\t2\n3\t4\n5"}
	in := []byte(inputs[vChoice("input", len(inputs))])
	lims := []uint32{0, 5, 9, 13, 14, 3072}
	l1 := lims[vChoice("from", len(lims))]
	l2 := lims[vChoice("to", len(lims))]
	old := readLimit
	SetLimit(l1)
	want1 := Detect(in).String()
	SetLimit(l2)
	want2 := Detect(in).String()
	SetLimit(l1)
	r, err := DetectReader(&c06FlipReader{data: in, to: l2})
	vAssert(err == nil && r != nil, "flip-no-error")
	got := r.String()
	vAssert(got == want1 || got == want2, "result-is-sequential-for-old-or-new-limit")
	SetLimit(old)
	vReach("end")
}
