//go:build verif

package mimetype

import (
	vbytes "bytes"
	vsync "sync"
)

func c06Reject([]byte, uint32) bool { return false }

// HC06Pairs: lock discipline of every pair of public operations. Symbolically the two operations
// run one after the other as "thread 1" and "thread 2" while the executor logs every access to a
// cell that is not owned by the running thread together with the locks held; a pair of accesses
// from different threads to the same cell, one of them a write, without a common lock held
// exclusively by one side (and not both atomic) is a data race under some schedule. Natively
// (replay) the same pair runs concurrently in goroutines under the Go race detector.
func HC06Pairs() {
	inputs := []string{`{"a":[1,2],"b":"x"}`, "a,b\n1,2\n3,4\n", "<html><head><meta charset=\"utf-8\"></head>", "\x89PNG\x0d\x0a\x1a\x0a0000", "plain text"}
	in := []byte(inputs[vChoice("input", len(inputs))])
	// sequential set-up: one extension registered with a caller-owned alias slice of given len/cap
	nal := vChoice("aliasLen", 3)
	spare := vChoice("aliasSpare", 2)
	aliases := make([]string, nal, nal+spare)
	for i := range aliases {
		aliases[i] = "application/x-verif-c06-alias" + l1Itoa(i)
	}
	Extend(c06Reject, "application/x-verif-c06", ".c06", aliases...)
	res := Detect(in)
	ops := []func(){
		func() { Detect(in) },
		func() { DetectReader(vbytes.NewReader(in)) },
		func() { Lookup("application/x-verif-c06") },
		func() { Lookup("text/html") },
		func() { Lookup("application/x-verif-none") },
		func() { SetLimit(1024) },
		func() { Extend(c06Reject, "application/x-verif-c06b", ".b") },
		func() { text.Extend(c06Reject, "text/x-verif-c06c", ".c", "text/x-verif-c06d") },
		func() { _ = res.String(); _ = res.Extension(); _ = res.Parent(); _ = res.Is("text/plain") },
	}
	a := vChoice("opA", len(ops))
	b := vChoice("opB", len(ops))
	if vSymbolic() {
		vThread(1)
		ops[a]()
		vThread(2)
		ops[b]()
		vThread(0)
	} else {
		for i := 0; i < 200; i++ {
			var wg vsync.WaitGroup
			wg.Add(2)
			go func() { defer wg.Done(); ops[a]() }()
			go func() { defer wg.Done(); ops[b]() }()
			wg.Wait()
		}
	}
	vReach("end")
}
