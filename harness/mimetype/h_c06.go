//go:build verif

package mimetype

import (
	vbytes "bytes"
	vio2 "io"
	vsync "sync"
)

func vioEOF() error { return vio2.EOF }

func c06Reject([]byte, uint32) bool { return false }

// HC06Pairs: lock discipline of every pair of public operations. Symbolically the two operations
// run one after the other as "thread 1" and "thread 2" while the executor logs every access to a
// cell that is not owned by the running thread together with the locks held; a pair of accesses
// from different threads to the same cell, one of them a write, without a common lock held
// exclusively by one side (and not both atomic) is a data race under some schedule. Natively
// (replay) the same pair runs concurrently in goroutines under the Go race detector.
func HC06Pairs() {
	inputs := []string{`{"a":[1,2],"b":"x"}`, "a,b\n1,2\n3,4\n", "<html><head><meta charset=\"utf-8\"></head>", "\x89PNG\x0d\x0a\x1a\x0a0000", "plain text"}
	in := []byte(inputs[vChoice("input", len(inputs))])
	// sequential set-up: one extension registered with a caller-owned alias slice of given len/cap
	nal := vChoice("aliasLen", 3)
	spare := vChoice("aliasSpare", 2)
	aliases := make([]string, nal, nal+spare)
	for i := range aliases {
		aliases[i] = "application/x-verif-c06-alias" + l1Itoa(i)
	}
	Extend(c06Reject, "application/x-verif-c06", ".c06", aliases...)
	res := Detect(in)
	ops := []func(){
		func() { Detect(in) },
		func() { DetectReader(vbytes.NewReader(in)) },
		func() { Lookup("application/x-verif-c06") },
		func() { Lookup("text/html") },
		func() { Lookup("application/x-verif-none") },
		func() { SetLimit(1024) },
		func() { Extend(c06Reject, "application/x-verif-c06b", ".b") },
		func() { text.Extend(c06Reject, "text/x-verif-c06c", ".c", "text/x-verif-c06d") },
		func() { _ = res.String(); _ = res.Extension(); _ = res.Parent(); _ = res.Is("text/plain") },
		func() {
			// accessors of a looked-up extension whose alias slice is the caller's (spare capacity)
			if l := Lookup("application/x-verif-c06"); l != nil {
				_ = l.Is("application/x-verif-other")
				_ = l.String()
				_ = l.Parent()
			}
		},
	}
	a := vChoice("opA", len(ops))
	b := vChoice("opB", len(ops))
	if vSymbolic() {
		vThread(1)
		ops[a]()
		vThread(2)
		ops[b]()
		vThread(0)
	} else {
		for i := 0; i < 200; i++ {
			var wg vsync.WaitGroup
			wg.Add(2)
			go func() { defer wg.Done(); ops[a]() }()
			go func() { defer wg.Done(); ops[b]() }()
			wg.Wait()
		}
		// no registration may be lost: count the nodes the concurrent Extend calls added
		want := 0
		for _, o := range []int{a, b} {
			if o == 6 || o == 7 {
				want += 200
			}
		}
		got := 0
		for _, n := range root.flatten() {
			if n.mime == "application/x-verif-c06b" || n.mime == "text/x-verif-c06c" {
				got++
			}
		}
		vAssert(got == want, "no-lost-registration")
	}
	vReach("end")
}

// c06FlipReader changes the read limit from inside its first Read: the limit flips while a
// detection is in flight, at a point of the harness's choosing rather than the scheduler's.
type c06FlipReader struct {
	data  []byte
	pos   int
	to    uint32
	done  bool
}

func (r *c06FlipReader) Read(p []byte) (int, error) {
	if !r.done {
		r.done = true
		SetLimit(r.to)
	}
	if r.pos >= len(r.data) {
		return 0, vioEOF()
	}
	n := copy(p, r.data[r.pos:])
	r.pos += n
	return n, nil
}

// HC06LimitFlip: a detection during which the limit changes returns what a sequential execution
// would have returned for the old or for the new limit (one load of the limit per detection).
func HC06LimitFlip() {
	inputs := []string{"a,b\n1,2\n3,4\n5,6\n", "{\"a\":1}\n{\"b\":2}\n{\"c\":3}\n", "<html><body>x</body></html>", "a\tb\n1\t2\n3\t4\n5"}
	in := []byte(inputs[vChoice("input", len(inputs))])
	lims := []uint32{0, 5, 9, 13, 14, 3072}
	l1 := lims[vChoice("from", len(lims))]
	l2 := lims[vChoice("to", len(lims))]
	old := readLimit
	SetLimit(l1)
	want1 := Detect(in).String()
	SetLimit(l2)
	want2 := Detect(in).String()
	SetLimit(l1)
	r, err := DetectReader(&c06FlipReader{data: in, to: l2})
	vAssert(err == nil && r != nil, "flip-no-error")
	got := r.String()
	vAssert(got == want1 || got == want2, "result-is-sequential-for-old-or-new-limit")
	SetLimit(old)
	vReach("end")
}

func c06Accept([]byte, uint32) bool { return true }

// c06GateReader: natively its first Read waits until the gate is closed (so that the concurrent
// SetLimit lands while the detection is in flight); symbolically it is a plain reader and the
// explorer chooses the interleaving.
type c06GateReader struct {
	data []byte
	pos  int
	gate chan struct{}
}

func (r *c06GateReader) Read(p []byte) (int, error) {
	if r.gate != nil {
		<-r.gate
		r.gate = nil
	}
	if r.pos >= len(r.data) {
		return 0, vioEOF()
	}
	n := copy(p, r.data[r.pos:])
	r.pos += n
	return n, nil
}

func c06Chain(m *MIME) string {
	s := ""
	for p := m; p != nil; p = p.Parent() {
		s += p.String() + "|" + p.Extension() + ">"
	}
	return s
}

// HC06Interleave: two operations run as two threads whose interleaving at synchronisation
// operations (atomic loads/stores, lock and unlock, pool get/put) is chosen by the explorer, every
// schedule with at most two preemptions. Afterwards (and for the values the operations returned)
// the outcome must be one a sequential execution allows: registrations are not lost and become
// visible to Lookup, a detection sees the old or the new limit / tree, a looked-up or returned
// value is never half-built. Natively (replay) the pair runs in goroutines for many rounds.
func HC06Interleave() {
	sc := vChoice("scenario", 7)
	rounds := 1
	if !vSymbolic() {
		rounds = 400
	}
	json1 := []byte(`{"a":[1,2],"b":"x"}` + "\n" + `{"c":1}` + "\n")
	csv1 := []byte("a,b\n1,2\n3,4\n5,6\n")
	for round := 0; round < rounds; round++ {
		sfx := l1Itoa(round)
		switch sc {
		case 0: // Extend || Lookup of something else: the new name and alias resolve afterwards
			name, alias := "application/x-verif-il0-"+sfx, "application/x-verif-il0-alias-"+sfx
			vPar(2, func() { Extend(c06Reject, name, ".il0", alias) }, func() {
				n := 1
				if !vSymbolic() {
					n = 50
				}
				for k := 0; k < n; k++ {
					_ = Lookup("text/plain")
				}
			})
			l := Lookup(name)
			vAssert(l != nil, "registration-visible-to-lookup-after-concurrent-lookup")
			if l != nil {
				vAssert(l.String() == name && l.Extension() == ".il0" && l.Parent() == root, "looked-up-extension-fully-built")
			}
			vAssert(Lookup(alias) == l, "alias-visible-to-lookup-after-concurrent-lookup")
		case 1: // Extend || Extend on the same parent: no registration is lost, older siblings stay behind
			before := append([]*MIME(nil), text.children...)
			a, b := "text/x-verif-il1a-"+sfx, "text/x-verif-il1b-"+sfx
			vPar(2, func() { text.Extend(c06Reject, a, ".a") }, func() { text.Extend(c06Reject, b, ".b") })
			now := text.children
			vAssert(len(now) == len(before)+2, "no-lost-registration")
			if len(now) == len(before)+2 {
				ok := (now[0].mime == a && now[1].mime == b) || (now[0].mime == b && now[1].mime == a)
				vAssert(ok, "both-extensions-in-front")
				for k := range before {
					vAssert(now[k+2] == before[k], "older-siblings-unchanged")
				}
			}
			vAssert(Lookup(a) != nil && Lookup(b) != nil, "both-registrations-visible")
		case 2, 3: // SetLimit || DetectReader: the result is the sequential one for the old or the new limit
			in := json1
			if sc == 3 {
				in = csv1
			}
			lims := [][2]uint32{{5, 3072}, {3072, 9}, {9, 0}, {0, 5}, {13, 14}}
			lp := lims[vChoice("limits", len(lims))]
			old := readLimit
			SetLimit(lp[0])
			want1 := c06Chain(Detect(in))
			SetLimit(lp[1])
			want2 := c06Chain(Detect(in))
			SetLimit(lp[0])
			rd := &c06GateReader{data: in}
			var gate chan struct{}
			if !vSymbolic() {
				gate = make(chan struct{})
				rd.gate = gate
			}
			var got string
			vPar(2, func() {
				SetLimit(lp[1])
				if gate != nil {
					close(gate)
				}
			}, func() {
				r, err := DetectReader(rd)
				if err == nil && r != nil {
					got = c06Chain(r)
				}
			})
			SetLimit(old)
			vAssert(got == want1 || got == want2, "detection-is-sequential-for-old-or-new-limit")
			if !vSymbolic() {
				rounds = 1
			}
		case 4: // Extend (accepting everything, root level) || Detect: old classification or the extension, fully built
			in := json1
			name := "application/x-verif-il4-" + sfx
			before := c06Chain(Detect(in))
			var got *MIME
			vPar(2, func() { Extend(c06Accept, name, ".il4") }, func() { got = Detect(in) })
			g := c06Chain(got)
			vAssert(g == before || g == name+"|.il4>application/octet-stream|>", "detection-sees-old-or-new-tree")
			after := c06Chain(Detect(in))
			vAssert(after == name+"|.il4>application/octet-stream|>", "extension-in-force-after-both-returned")
			// neutralise the catch-all for the following rounds / scenarios
			root.children[0].detector = c06Reject
		case 5: // Extend || Lookup of the name being registered: nil or the fully built node
			name := "application/x-verif-il5-" + sfx
			var l *MIME
			vPar(2, func() { text.Extend(c06Reject, name, ".il5", name+"-alias") }, func() { l = Lookup(name) })
			if l != nil {
				vAssert(l.String() == name && l.Extension() == ".il5" && l.Parent() == text && l.Is(name+"-alias"), "looked-up-value-never-half-built")
			}
			vAssert(Lookup(name) != nil && Lookup(name+"-alias") == Lookup(name), "registration-visible-afterwards")
		case 6: // Detect || DetectReader on different inputs (shared pools): each result is the sequential one
			wantA, wantB := c06Chain(Detect(json1)), c06Chain(Detect(csv1))
			var ga, gb string
			vPar(2, func() { ga = c06Chain(Detect(json1)) }, func() {
				r, _ := DetectReader(vbytes.NewReader(csv1))
				gb = c06Chain(r)
			})
			vAssert(ga == wantA && gb == wantB, "concurrent-detections-are-sequential")
		}
	}
	vReach("end")
}
