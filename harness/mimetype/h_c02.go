//go:build verif

package mimetype

import vmime "mime"

// c02Check: the string of a detection result parses as a media type whose type/subtype is the
// registered one and whose only parameter is charset; the ancestors carry no parameters; the
// equality helpers accept the result's own string (C15).
func c02Check(res *MIME, node *MIME, label string) {
	s := res.String()
	mt, params, err := vmime.ParseMediaType(s)
	vAssert(err == nil, label+":string-parses")
	vAssert(mt == node.mime, label+":registered-type")
	for k := range params {
		vAssert(k == "charset", label+":only-charset-parameter")
	}
	vAssert(len(params) <= 1, label+":at-most-one-parameter")
	n := 0
	for p := res.Parent(); p != nil; p = p.Parent() {
		for i := 0; i < len(p.mime); i++ {
			vAssert(p.mime[i] != ';', label+":ancestors-bare")
		}
		n++
		vAssert(n < 8, label+":chain-finite")
		if p.Parent() == nil {
			vAssert(p.String() == "application/octet-stream", label+":rooted")
		}
	}
	// C15: the helpers accept the result's own spelling
	vAssert(res.Is(s), label+":is-own-string")
	vAssert(EqualsAny(s, s), label+":equalsany-own-string")
	l := Lookup(node.mime)
	vAssert(l != nil && l.Is(s), label+":lookup-bare-type-is-result")
}

// HC02Format: hostile charset labels. The header is an HTML or XML declaration whose label is k
// arbitrary bytes (full alphabet); the real FromHTML/FromXML extract whatever they extract, the
// real match/clone format it with mime.FormatMediaType, and the result must round-trip through
// mime.ParseMediaType.
func HC02Format() {
	k := vChoice("labelLen", 4)
	label := vBytes("label", k, k)
	var in []byte
	var node *MIME
	switch vChoice("carrier", 5) {
	case 0:
		in = append(in, "<meta charset=\""...)
		in = append(in, label...)
		in = append(in, "\">"...)
		node = html
	case 1:
		in = append(in, "<meta charset='"...)
		in = append(in, label...)
		in = append(in, "'>"...)
		node = html
	case 2:
		in = append(in, "<meta http-equiv=content-type content=\"text/html; charset="...)
		in = append(in, label...)
		in = append(in, "\">"...)
		node = html
	case 3:
		in = append(in, "<?xml version=\"1.0\" encoding=\""...)
		in = append(in, label...)
		in = append(in, "\"?>"...)
		node = xml
	case 4:
		// plain text: whatever the sniffer says about the label bytes themselves
		in = append(in, label...)
		node = text
	}
	res := node.match(in, 0)
	vAssert(res != nil, "non-nil")
	c02Check(res, node, "format")
	vReach("end")
}

// HC02Registered: every registered type and alias parses as a bare media type (finite, concrete).
func HC02Registered() {
	for _, n := range root.flatten() {
		mt, params, err := vmime.ParseMediaType(n.mime)
		vAssert(err == nil && mt == n.mime && len(params) == 0, "registered-type-is-bare-media-type")
		for _, a := range n.aliases {
			amt, ap, aerr := vmime.ParseMediaType(a)
			vAssert(aerr == nil && amt == a && len(ap) == 0, "alias-is-normalised")
		}
	}
	mt, _, err := vmime.ParseMediaType(errMIME.String())
	vAssert(err == nil && mt == "application/octet-stream" && errMIME.Parent() == nil, "errMIME-is-bare-root")
	vReach("end")
}
