//go:build verif

package mimetype

// Lengths explored for detectors without input-dependent loops (tier 0 = quick, 1 = thorough).
// heavy = the OLE CLSID matchers, whose CLSID offset is a product of an attacker-controlled
// sector id and is concretised through the solver (seconds per length above 608 bytes).
func c01Lengths(tier int, heavy bool) []int {
	var out []int
	if tier == 1 && !heavy {
		for i := 0; i <= 4300; i++ {
			out = append(out, i)
		}
		return out
	}
	for i := 0; i <= 64; i++ {
		out = append(out, i)
	}
	rs := [][2]int{{126, 134}, {254, 262}, {508, 530}, {604, 610}, {1150, 1155}, {4094, 4098}, {4190, 4194}}
	if heavy {
		rs = [][2]int{{510, 522}, {606, 609}, {1151, 1153}, {4095, 4097}, {4191, 4193}}
	}
	if tier == 1 {
		rs = append(rs, [2]int{65, 125}, [2]int{1119, 1130}, [2]int{1630, 1640}, [2]int{2140, 2150}, [2]int{4280, 4300})
	}
	for _, r := range rs {
		for i := r[0]; i <= r[1]; i++ {
			out = append(out, i)
		}
	}
	return out
}

func c01IsHeavy(n *MIME) bool {
	return n.parent == ole
}

// c01IsText reports whether node n is text/plain or one of its descendants (the scanners
// whose work grows with the input; they get small length bounds).
func c01IsText(n *MIME) bool {
	for p := n; p != nil; p = p.parent {
		if p == text {
			return true
		}
	}
	return false
}

// c01IsOffset: detectors that slice the header at an offset computed from attacker-controlled
// length fields (zip local-header walking, CRX). The number of feasible offsets grows with the
// header length, so these get their own, smaller, length bound.
func c01IsOffset(n *MIME) bool {
	return n == crx || n == docx || n == xlsx || n == pptx || n == jar || n == apk
}

// HC01Offset: as HC01Node for the offset-computing detectors, every length 0..maxlen.
func HC01Offset() {
	nodes := root.flatten()
	k := vChoice("node", len(nodes))
	n := nodes[k]
	vAssume(c01IsOffset(n))
	maxN := vChoice("maxlen", 4300)
	if n == crx && maxN > 28 {
		// CRX adds two attacker-controlled uint32 lengths; every candidate offset costs a solver call
		maxN = 28 + (maxN-28)/4
	}
	raw := vBytes("raw", 0, maxN)
	limit := vUint32("limit")
	vWatch(raw)
	r := n.detector(raw, limit)
	vAssert(vWritten() == 0, "input-not-written")
	vNote("node", n.mime)
	vNote("verdict", r)
	vReach("end")
}

// HC01Node: every registered signature check called directly with an arbitrary
// (header, limit) pair. Any Go panic (index, slice bounds, nil, division, explicit) on any
// path is a violation; budgets act as unwinding assertions (termination inside the bound).
func HC01Node() {
	nodes := root.flatten()
	k := vChoice("node", len(nodes))
	n := nodes[k]
	tier := vChoice("tier", 2)
	vAssume(!c01IsText(n) && n != webM && n != mkv && !c01IsOffset(n))
	lens := c01Lengths(tier, c01IsHeavy(n))
	N := lens[vChoice("len", len(lens))]
	raw := vBytes("raw", N, N)
	limit := vUint32("limit")
	vWatch(raw)
	r := n.detector(raw, limit)
	vAssert(vWritten() == 0, "input-not-written")
	vNote("node", n.mime)
	vNote("verdict", r)
	vReach("end")
}

// HC01Scanner: the looping detectors (text family, matroska) with every length 0..N.
func HC01Scanner() {
	nodes := root.flatten()
	k := vChoice("node", len(nodes))
	n := nodes[k]
	vAssume(c01IsText(n) || n == webM || n == mkv)
	maxN := vChoice("maxlen", 4300)
	raw := vBytes("raw", 0, maxN)
	limit := vUint32("limit")
	vWatch(raw)
	r := n.detector(raw, limit)
	vAssert(vWritten() == 0, "input-not-written")
	vNote("node", n.mime)
	vNote("verdict", r)
	vReach("end")
}
