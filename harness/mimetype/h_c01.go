//go:build verif

package mimetype

// Lengths explored for detectors without input-dependent loops (tier 0 = quick, 1 = thorough).
// heavy = the OLE CLSID matchers, whose CLSID offset is a product of an attacker-controlled
// sector id and is concretised through the solver (seconds per length above 608 bytes).
func c01Lengths(tier int, heavy bool) []int {
	var out []int
	if tier == 1 && !heavy {
		for i := 0; i <= 4300; i++ {
			out = append(out, i)
		}
		return out
	}
	for i := 0; i <= 64; i++ {
		out = append(out, i)
	}
	rs := [][2]int{{126, 134}, {254, 262}, {508, 530}, {604, 610}, {1150, 1155}, {4094, 4098}, {4190, 4194}}
	if heavy {
		rs = [][2]int{{510, 522}, {606, 609}, {1151, 1153}, {4095, 4097}, {4191, 4193}}
	}
	if tier == 1 {
		rs = append(rs, [2]int{65, 125}, [2]int{1119, 1130}, [2]int{1630, 1640}, [2]int{2140, 2150}, [2]int{4280, 4300})
	}
	for _, r := range rs {
		for i := r[0]; i <= r[1]; i++ {
			out = append(out, i)
		}
	}
	return out
}

func c01IsHeavy(n *MIME) bool {
	return n.parent == ole
}

// c01IsText reports whether node n is text/plain or one of its descendants (the scanners
// whose work grows with the input; they get small length bounds).
func c01IsText(n *MIME) bool {
	for p := n; p != nil; p = p.parent {
		if p == text {
			return true
		}
	}
	return false
}

// c01IsOffset: detectors that slice the header at an offset computed from attacker-controlled
// length fields (zip local-header walking, CRX). The number of feasible offsets grows with the
// header length, so these get their own, smaller, length bound.
func c01IsOffset(n *MIME) bool {
	return n == crx || n == docx || n == xlsx || n == pptx || n == jar || n == apk
}

// HC01Offset: as HC01Node for the offset-computing detectors, every length 0..maxlen.
func HC01Offset() {
	nodes := root.flatten()
	k := vChoice("node", len(nodes))
	n := nodes[k]
	vAssume(c01IsOffset(n))
	maxN := vChoice("maxlen", 4300)
	if n == crx && maxN > 28 {
		// CRX adds two attacker-controlled uint32 lengths; every candidate offset costs a solver call
		maxN = 28 + (maxN-28)/4
	}
	raw := vBytes("raw", 0, maxN)
	limit := vUint32("limit")
	vWatch(raw)
	r := n.detector(raw, limit)
	vAssert(vWritten() == 0, "input-not-written")
	vNote("node", n.mime)
	vNote("verdict", r)
	vReach("end")
}

// HC01Node: every registered signature check called directly with an arbitrary
// (header, limit) pair. Any Go panic (index, slice bounds, nil, division, explicit) on any
// path is a violation; budgets act as unwinding assertions (termination inside the bound).
func HC01Node() {
	nodes := root.flatten()
	k := vChoice("node", len(nodes))
	n := nodes[k]
	tier := vChoice("tier", 2)
	vAssume(!c01IsText(n) && n != webM && n != mkv && !c01IsOffset(n))
	lens := c01Lengths(tier, c01IsHeavy(n))
	N := lens[vChoice("len", len(lens))]
	raw := vBytes("raw", N, N)
	limit := vUint32("limit")
	vWatch(raw)
	r := n.detector(raw, limit)
	vAssert(vWritten() == 0, "input-not-written")
	vNote("node", n.mime)
	vNote("verdict", r)
	vReach("end")
}

// HC01Scanner: the looping detectors (text family, matroska) with every length 0..N.
func HC01Scanner() {
	nodes := root.flatten()
	k := vChoice("node", len(nodes))
	n := nodes[k]
	vAssume(c01IsText(n) || n == webM || n == mkv)
	maxN := vChoice("maxlen", 4300)
	raw := vBytes("raw", 0, maxN)
	limit := vUint32("limit")
	vWatch(raw)
	r := n.detector(raw, limit)
	vAssert(vWritten() == 0, "input-not-written")
	vNote("node", n.mime)
	vNote("verdict", r)
	vReach("end")
}

func c01Bin(b byte) bool {
	return b <= 0x08 || b == 0x0B || (0x0E <= b && b <= 0x1A) || (0x1C <= b && b <= 0x1F)
}

func c01HasBOM(x []byte) bool {
	boms := [][]byte{{0xEF, 0xBB, 0xBF}, {0x00, 0x00, 0xFE, 0xFF}, {0xFF, 0xFE, 0x00, 0x00}, {0xFE, 0xFF}, {0xFF, 0xFE}}
	for _, b := range boms {
		if len(x) >= len(b) {
			ok := true
			for i := range b {
				if x[i] != b[i] {
					ok = false
				}
			}
			if ok {
				return true
			}
		}
	}
	return false
}

// HC01Data: the whole of Detect and DetectReader (real tree walk, real detectors, real charset
// sniffers) on realistic headers: the first bytes of every input of the repository's own test table
// and testdata files (regenerated from /repo on every run), cut at several lengths, with one byte
// replaced by a symbolic byte and a symbolic byte appended, at limits 0, len (header counts as cut)
// and 3072. Obligations: no run-time check fails, the result is non-nil, the caller's buffer is not
// written, the reader path reports the same chain, and - end to end - text/plain is in the chain
// only for a BOM or a header without binary-data bytes, and such headers never end as the bare root.
func HC01Data() {
	f := c01TestData[vChoice("file", len(c01TestData))]
	cuts := []int{len(f)}
	for _, c := range []int{4, 12, 33} {
		if c < len(f) {
			cuts = append(cuts, c)
		}
	}
	ci := vChoice("cut", 4)
	vAssume(ci < len(cuts))
	cut := cuts[ci]
	hdr := make([]byte, cut, cut+1)
	copy(hdr, f[:cut])
	poke := vChoice("poke", 4)
	if vChoice("dataTier", 2) == 0 {
		// quick tier: no substitution, or the last byte of the cut
		vAssume(poke == 0 || poke == 3)
	}
	switch poke {
	case 1:
		hdr[0] = vByte("p")
	case 2:
		if cut > 5 {
			hdr[5] = vByte("p")
		} else {
			vAssume(false)
		}
	case 3:
		hdr[cut-1] = vByte("p")
	}
	if vChoice("tail", 2) == 1 {
		hdr = append(hdr, vByte("t"))
	}
	lims := []uint32{0, uint32(len(hdr)), 3072}
	l := lims[vChoice("limit", len(lims))]
	old := readLimit
	SetLimit(l)
	vWatch(hdr)
	r := Detect(hdr)
	vAssert(r != nil, "data-result-non-nil")
	vAssert(vWritten() == 0, "data-caller-buffer-not-written")
	r2, err := DetectReader(&c06GateReader{data: hdr})
	SetLimit(old)
	vAssert(err == nil && r2 != nil, "data-reader-ok")
	vAssert(c06Chain(r) == c06Chain(r2), "data-reader-agrees-with-bytes")
	inChain := false
	for p := r; p != nil; p = p.Parent() {
		if l1BareType(p.String()) == "text/plain" {
			inChain = true
		}
	}
	bin := false
	for _, b := range hdr {
		if c01Bin(b) {
			bin = true
		}
	}
	bom := c01HasBOM(hdr)
	if inChain {
		vAssert(bom || !bin, "e2e-text-implies-bom-or-no-binary-byte")
	}
	if bom || !bin {
		vAssert(r.Parent() != nil, "e2e-no-binary-byte-implies-classified")
	}
	// C02 / C15 end to end: the result's string parses, names a registered format, carries at most a
	// charset parameter, its ancestors are bare and rooted, and the equality helpers accept it
	if vChoice("dataC02", 2) == 1 {
		if node := Lookup(l1BareType(r.String())); node != nil {
			c02Check(r, node, "data")
		} else {
			vAssert(false, "data:registered-type")
		}
	}
	vReach("end")
}
