//go:build verif

package mimetype

import (
	verrors "errors"
	vio "io"
	vfs "io/fs"
	vos "os"
	vtime "time"
)

// c05FileInfo describes the modelled file to code that stats it: a regular file of the given size.
type c05FileInfo struct{ size int64 }

func (c05FileInfo) Name() string        { return "verif-c05" }
func (i c05FileInfo) Size() int64       { return i.size }
func (c05FileInfo) Mode() vfs.FileMode  { return 0o644 }
func (c05FileInfo) ModTime() vtime.Time { return vtime.Time{} }
func (c05FileInfo) IsDir() bool         { return false }
func (c05FileInfo) Sys() any            { return nil }

var c05Sentinel = verrors.New("verif: injected read error")

// c05Reader is a conforming io.Reader over data: every Read makes progress (1..len(p) bytes, the
// count is a nondeterministic choice), may deliver the last bytes together with io.EOF, and may
// fail with the sentinel once failAt bytes have been delivered (optionally together with data).
type c05Reader struct {
	data        []byte
	pos         int
	failAt      int // -1: never
	eofWithData bool
	errWithData bool
	failed      bool
	reads       int
}

func (r *c05Reader) Read(p []byte) (int, error) {
	r.reads++
	if len(p) == 0 {
		return 0, nil
	}
	if r.failAt >= 0 && r.pos >= r.failAt {
		r.failed = true
		return 0, c05Sentinel
	}
	remaining := len(r.data) - r.pos
	if remaining == 0 {
		return 0, vio.EOF
	}
	max := len(p)
	if remaining < max {
		max = remaining
	}
	if r.failAt >= 0 && r.failAt-r.pos < max {
		max = r.failAt - r.pos
	}
	k := 1 + vChoice("chunk", max)
	copy(p, r.data[r.pos:r.pos+k])
	r.pos += k
	if r.failAt >= 0 && r.pos == r.failAt && r.errWithData {
		r.failed = true
		return k, c05Sentinel
	}
	if r.pos == len(r.data) && r.eofWithData {
		return k, vio.EOF
	}
	return k, nil
}

func c05Limits(n int) []uint32 {
	out := []uint32{0}
	for i := 1; i <= n+2; i++ {
		out = append(out, uint32(i))
	}
	return append(out, 3072)
}

// c05Capture runs f with every detector rejecting and returns what the tree walk received.
func c05Capture(s *l1State, f func()) (raw []byte, limit uint32, ok bool) {
	s.captured, s.capRaw, s.capLimit, s.calls = false, nil, 0, 0
	f()
	return s.capRaw, s.capLimit, s.captured
}

// HC05Reader: DetectReader over every chunking / EOF-with-data schedule hands the tree walk
// exactly what Detect hands it for the same bytes and limit, never consumes more than limit
// bytes, and surfaces an injected error as (application/octet-stream, err).
func HC05Reader() {
	maxN := vChoice("maxlen", 64)
	data := vBytes("data", 0, maxN)
	lims := c05Limits(maxN)
	l := lims[vChoice("limit", len(lims))]
	s := l1Setup()
	s.allFalse = true
	old := readLimit
	SetLimit(l)
	var rA *MIME
	inA, lA, okA := c05Capture(s, func() { rA = Detect(data) })
	vAssert(okA && rA != nil, "detect-reaches-walk")
	// what Detect hands over is the first limit bytes of the caller's slice
	wantLen := len(data)
	if l > 0 && len(data) > int(l) {
		wantLen = int(l)
	}
	vAssert(len(inA) == wantLen && lA == l, "detect-slices-to-limit")
	vAssert(wantLen == 0 || &inA[0] == &data[0], "detect-passes-prefix-of-input")

	rd := &c05Reader{data: data, failAt: -1}
	rd.eofWithData = vChoice("eofWithData", 2) == 1
	if vChoice("inject", 2) == 1 {
		rd.failAt = vChoice("failAt", len(data)+1)
		rd.errWithData = vChoice("errWithData", 2) == 1
	}
	var rB *MIME
	var errB error
	inB, lB, okB := c05Capture(s, func() { rB, errB = DetectReader(rd) })
	vAssert(rB != nil, "reader-result-non-nil")
	if l > 0 {
		vAssert(rd.pos <= int(l), "reader-consumes-at-most-limit")
	}
	// a failure counts only if it happened before the header was complete: an error returned
	// together with the bytes that fill the limit-sized buffer is (legitimately) dropped by io.ReadFull
	if rd.failed && (l == 0 || rd.pos < int(l)) {
		vAssert(rB == errMIME, "error-yields-errMIME")
		vAssert(errB == c05Sentinel, "error-is-surfaced")
		vAssert(rB.String() == "application/octet-stream" && rB.Parent() == nil, "errMIME-is-bare-root")
		vAssert(!okB, "error-skips-detection")
	} else {
		vAssert(errB == nil, "no-error-without-failure")
		vAssert(okB, "reader-reaches-walk")
		vAssert(lB == lA, "same-limit")
		vAssert(len(inB) == len(inA), "same-header-length")
		vAssert(vSameBytes(inB, inA), "same-header-bytes")
		vAssert(s.argsOK, "every-detector-gets-the-same-arguments")
	}
	SetLimit(old)
	vReach("end")
}

// HC05File: DetectFile delegates to DetectReader over the file's bytes, closes the file, and
// surfaces open errors as (application/octet-stream, err).
func HC05File() {
	maxN := vChoice("maxlen", 64)
	data := vBytes("data", 0, maxN)
	lims := c05Limits(maxN)
	l := lims[vChoice("limit", len(lims))]
	s := l1Setup()
	s.allFalse = true
	old := readLimit
	SetLimit(l)
	inA, lA, _ := c05Capture(s, func() { Detect(data) })
	var rB *MIME
	var errB error
	var inB []byte
	var lB uint32
	var okB bool
	path := "/nonexistent/verif-c05"
	// a file whose very first read fails (natively: a directory)
	dirLike := vChoice("dirLike", 2) == 1
	if vSymbolic() {
		rd := &c05Reader{data: data, failAt: -1}
		if dirLike {
			rd.failAt = 0
		}
		vFileReader(rd)
		vFileInfo(vfs.FileInfo(c05FileInfo{size: int64(len(data))}))
	} else if dirLike {
		if dir, err := vos.MkdirTemp("", "verif-c05-dir-*"); err == nil {
			path = dir
			defer vos.Remove(dir)
		}
	} else {
		f, err := vos.CreateTemp("", "verif-c05-*")
		if err == nil {
			f.Write(data)
			f.Close()
			path = f.Name()
			defer vos.Remove(path)
		}
	}
	inB, lB, okB = c05Capture(s, func() { rB, errB = DetectFile(path) })
	vAssert(rB != nil, "file-result-non-nil")
	if dirLike {
		vAssert(errB != nil, "file-read-error-is-surfaced")
	}
	if errB != nil {
		vAssert(rB == errMIME && !okB, "open-error-yields-errMIME")
	} else {
		vAssert(okB && lB == lA && len(inB) == len(inA) && vSameBytes(inB, inA), "file-same-header-as-bytes")
		vAssert(vFileClosed() == 1, "file-closed")
	}
	SetLimit(old)
	vReach("end")
}

// HC04Watch: the caller's buffer is never written by Detect, with the real detectors and real
// charset sniffers running on symbolic bytes (small headers).
func HC04Watch() {
	maxN := vChoice("maxlen", 64)
	data := vBytes("data", 0, maxN)
	data = vGrowCap(data, 2, "tail")
	lims := []uint32{0, 1, 2, 3072}
	l := lims[vChoice("limit", len(lims))]
	old := readLimit
	SetLimit(l)
	vWatch(data)
	r := Detect(data)
	vAssert(r != nil, "non-nil")
	vAssert(vWritten() == 0, "caller-buffer-not-written")
	SetLimit(old)
	vReach("end")
}

// HC05Seq: two consecutive reader detections with different limits (the second one lower, equal or
// higher): whatever a first detection leaves behind (pooled or cached buffers), the second one
// must not panic, must hand the walk exactly Detect's header, and must not read past its limit.
func HC05Seq() {
	maxN := vChoice("maxlen", 64)
	d1 := vBytes("data1", 0, maxN)
	d2 := vBytes("data2", 0, maxN)
	lims := []uint32{0, 1, 2, 3, 5, 3072}
	l1 := lims[vChoice("limit1", len(lims))]
	l2 := lims[vChoice("limit2", len(lims))]
	s := l1Setup()
	s.allFalse = true
	old := readLimit
	SetLimit(l1)
	r1, e1 := DetectReader(&c05Reader{data: d1, failAt: -1})
	vAssert(r1 != nil && e1 == nil, "first-detection-ok")
	SetLimit(l2)
	inA, lA, okA := c05Capture(s, func() { Detect(d2) })
	rd := &c05Reader{data: d2, failAt: -1}
	var rB *MIME
	var errB error
	inB, lB, okB := c05Capture(s, func() { rB, errB = DetectReader(rd) })
	vAssert(rB != nil && errB == nil, "second-detection-ok")
	vAssert(okA && okB && lA == lB && lB == l2, "second-detection-sees-current-limit")
	vAssert(len(inA) == len(inB), "second-detection-same-header-length")
	vAssert(vSameBytes(inA, inB), "second-detection-same-header-bytes")
	if l2 > 0 {
		vAssert(rd.pos <= int(l2), "second-detection-consumes-at-most-limit")
		vAssert(len(inB) <= int(l2), "second-detection-header-within-limit")
	}
	SetLimit(old)
	vReach("end")
}

// c05BigReader delivers a long input; the chunk size of each Read comes from a small menu (all that
// fits, one byte, half, up to the next 3072-byte boundary) and at most two Reads deviate from "all that fits".
type c05BigReader struct {
	data        []byte
	pos         int
	odd         int
	eofWithData bool
}

func (r *c05BigReader) Read(p []byte) (int, error) {
	if len(p) == 0 {
		return 0, nil
	}
	remaining := len(r.data) - r.pos
	if remaining == 0 {
		return 0, vio.EOF
	}
	max := len(p)
	if remaining < max {
		max = remaining
	}
	k := max
	if r.odd < 2 && max > 1 {
		switch vChoice("bigchunk", 4) {
		case 1:
			k, r.odd = 1, r.odd+1
		case 2:
			k, r.odd = max/2, r.odd+1
		case 3:
			if b := 3072 - r.pos%3072; b < max {
				k, r.odd = b, r.odd+1
			} else {
				vAssume(false)
			}
		}
	}
	copy(p, r.data[r.pos:r.pos+k])
	r.pos += k
	if r.pos == len(r.data) && r.eofWithData {
		return k, vio.EOF
	}
	return k, nil
}

// HC05Big: inputs around and beyond the default header size (3072) with limits below, at and above
// it: the reader path hands the walk exactly Detect's header and stays within the limit. The bytes
// are a fixed pattern with symbolic bytes at the first, the 3072nd and the last position.
func HC05Big() {
	sizes := []int{3071, 3072, 3073, 3080, 6144, 6145}
	n := sizes[vChoice("size", len(sizes))]
	data := make([]byte, n)
	for i := range data {
		data[i] = byte(i*7 + 3)
	}
	sym := vBytes("sym", 3, 3)
	data[0], data[3070], data[n-1] = sym[0], sym[1], sym[2]
	lims := []uint32{0, 3071, 3072, 3073, 3100, 6144, 6145, 8192}
	l := lims[vChoice("limit", len(lims))]
	s := l1Setup()
	s.allFalse = true
	old := readLimit
	SetLimit(l)
	inA, lA, okA := c05Capture(s, func() { Detect(data) })
	wantLen := n
	if l > 0 && n > int(l) {
		wantLen = int(l)
	}
	vAssert(okA && len(inA) == wantLen && lA == l, "big-detect-slices-to-limit")
	rd := &c05BigReader{data: data, eofWithData: vChoice("eofWithData", 2) == 1}
	var rB *MIME
	var errB error
	inB, lB, okB := c05Capture(s, func() { rB, errB = DetectReader(rd) })
	vAssert(rB != nil && errB == nil && okB, "big-reader-ok")
	vAssert(lB == l, "big-same-limit")
	vAssert(len(inB) == wantLen, "big-same-header-length")
	vAssert(len(inB) != wantLen || vSameBytes(inB, inA), "big-same-header-bytes")
	if l > 0 {
		vAssert(rd.pos <= int(l), "big-reader-consumes-at-most-limit")
	} else {
		vAssert(rd.pos == n, "big-reader-consumes-everything-when-unlimited")
	}
	SetLimit(old)
	vReach("end")
}
