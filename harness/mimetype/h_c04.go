//go:build verif

package mimetype

// c04Zip lays out local file headers (stored, sizes known, empty or tiny bodies) for the given
// entry names; the zip-based signature checks only look at local headers.
func c04Zip(names ...string) []byte {
	var out []byte
	for i, n := range names {
		body := ""
		if i%2 == 1 {
			body = "ab"
		}
		h := []byte{'P', 'K', 3, 4, 20, 0, 0, 0, 0, 0, 0, 0, 0, 0, 0, 0, 0, 0,
			byte(len(body)), 0, 0, 0, byte(len(body)), 0, 0, 0, byte(len(n)), 0, 0, 0}
		out = append(out, h...)
		out = append(out, n...)
		out = append(out, body...)
	}
	return out
}

func c04Docs() [][]byte {
	return [][]byte{
		[]byte(`{"type":"Point","coordinates":[1,2]}`),
		[]byte(`{"log":{"version":"1.2","entries":[]}}`),
		[]byte(`{"asset":{"version":"2.0"},"x":[1]}`),
		[]byte(`{"a":[1,2,3],"b":{"c":"dddd"}}`),
		[]byte("a,b,c\n1,2,3\n4,5,6\n"),
		[]byte("{\"a\":1}\n{\"b\":2}\n"),
		[]byte(`<html><meta charset="koi8-r">`),
		[]byte(`<?xml version="1.0" encoding="iso-8859-5"?><a/>`),
		c04Zip("[Content_Types].xml", "word/document.xml"),
		c04Zip("[Content_Types].xml", "_rels/.rels", "xl/workbook.xml"),
		c04Zip("META-INF/MANIFEST.MF", "a.class"),
		c04Zip("a.txt", "b.txt"),
		[]byte("hello world"),
		[]byte("caf\xe9 ol\xe9"),
		[]byte("a\tb\n1\t2\n3\t4\n"),
		[]byte("\x89PNG\x0d\x0a\x1a\x0a0000"),
	}
}

func c04Pad(d []byte, n int) []byte {
	out := make([]byte, n)
	copy(out, d)
	pad := byte(' ')
	if len(d) > 0 && d[0] == 'P' {
		pad = 0
	}
	for i := len(d); i < n; i++ {
		out[i] = pad
	}
	return out
}

// HC04Reuse: a caller that reads file after file into one buffer. The second detection runs on the
// same backing array (same address, same length) holding different bytes; it must answer exactly
// what a detection on a fresh copy of those bytes answers, and the value returned first keeps its
// chain. One byte near the end of the second document is symbolic.
func HC04Reuse() {
	docs := c04Docs()
	ia := vChoice("first", len(docs))
	ib := vChoice("second", len(docs))
	n := len(docs[ia])
	if len(docs[ib]) > n {
		n = len(docs[ib])
	}
	a, b := c04Pad(docs[ia], n), c04Pad(docs[ib], n)
	if k := len(docs[ib]) - 2; vChoice("symbolicByte", 2) == 1 {
		v := vByte("v")
		vAssume(v >= 0x20 && v < 0x7f)
		b[k] = v
	}
	lims := []uint32{3072, 0, uint32(n), uint32(n - 1)}
	old := readLimit
	SetLimit(lims[vChoice("limit", len(lims))])
	buf := make([]byte, n)
	copy(buf, a)
	r1 := Detect(buf)
	snap1 := c14Snapshot(r1)
	copy(buf, b)
	r2 := Detect(buf)
	fresh := make([]byte, n)
	copy(fresh, b)
	r3 := Detect(fresh)
	r4 := Detect(buf)
	SetLimit(old)
	vAssert(c14Same(c14Snapshot(r2), c14Snapshot(r3)), "reused-buffer-same-answer-as-fresh-copy")
	vAssert(c14Same(c14Snapshot(r4), c14Snapshot(r3)), "repeated-detection-same-answer")
	vAssert(c14Same(c14Snapshot(r1), snap1), "earlier-result-unaffected-by-buffer-reuse")
	vReach("end")
}
