//go:build verif

package mimetype

func HConcrete() {
	for _, s := range []string{
		"hello world", `{"a":[1,2],"type":"Point"}`, "<html><head><meta charset=\"ISO-8859-2\"></head>",
		"<?xml version=\"1.0\" encoding=\"UTF-8\"?><a/>", "a,b\n1,2\n3,4\n", "PK\x03\x04aaaaaaaaaaaaaaaaaaaaaaaaaaaaaaaaaaaa",
		"\x89PNG\x0d\x0a\x1a\x0a", "", "caf\xc3\xa9", "{\"a\":1}\n{\"b\":2}\n", "1\n00:02:16,612 --> 00:02:19,376\nHello\n",
	} {
		m := Detect([]byte(s))
		vNote("r", m.String()+" "+m.Extension())
	}
	vReach("end")
}
