//go:build verif

package mimetype

// HC17Step: one inductive step over the header length for every binary root format D:
// if D accepts the first n-1 bytes then some binary root format accepts the first n bytes
// (for arbitrary limits on both sides). Induction on n gives every pair of limits L < L'.
// Together with the tree walk (C03: first match wins, text/plain is consulted last, children
// only refine) this yields: a longer header of a recognised binary file is never reported as
// text or as the bare root.
func HC17Step() {
	kids := root.children
	k := vChoice("format", len(kids))
	d := kids[k]
	vAssume(d != text)
	tier := vChoice("tier", 2)
	lens := c01Lengths(tier, c01IsHeavy(d) || d == ole)
	if d == tar {
		// Tar reads exactly the first 512 bytes; each path costs several 512-term integer queries
		lens = []int{1, 100, 511, 512, 513, 514, 1024}
		if tier == 1 {
			lens = append(lens, 2, 256, 510, 515, 520, 600, 2048, 4096)
		}
	}
	if d == crx {
		// every feasible zip offset is a solver-enumerated fork: lengths 1..26 (quick) / 1..56 (thorough)
		lens = nil
		for i := 1; i <= 26+30*tier; i++ {
			lens = append(lens, i)
		}
	}
	if d == webM || d == mkv {
		// the EBML search forks once per byte position: these two get every length 1..72 (quick) / 1..160 (thorough)
		lens = nil
		for i := 1; i <= 72+88*tier; i++ {
			lens = append(lens, i)
		}
	}
	// tar only: the size field of the first header is either left symbolic (as every other byte) or pinned to a
	// writer-style octal spelling, with header lengths at the record boundaries that follow the entry's content;
	// arithmetic on a pinned size is concrete, which keeps the obligations linear for the solver
	tarSize := -1
	if d == tar {
		sizes := []int{-1, 0, 512}
		ends := []int{1024, 1536, 2048}
		if tier == 1 {
			sizes = append(sizes, 1, 513, 1024)
			ends = append(ends, 2560, 3072)
		}
		tarSize = sizes[vChoice("tarSize", len(sizes))]
		if tarSize >= 0 {
			lens = ends
		}
	}
	n := lens[vChoice("len", len(lens))]
	vAssume(n >= 1)
	raw := vBytes("raw", n, n)
	if tarSize >= 0 {
		sp := []byte("00000000000\x00")
		for i, v := 10, tarSize; i >= 0; i-- {
			sp[i] = byte('0' + v%8)
			v /= 8
		}
		for i := range sp {
			vAssume(raw[124+i] == sp[i])
		}
	}
	l1 := vUint32("l1")
	l2 := vUint32("l2")
	vAssume(d.detector(raw[:n-1:n-1], l1))
	vNote("format", d.mime)
	if d.detector(raw, l2) {
		vReach("same-format-still-matches")
		vReach("end")
		return
	}
	// the format itself let go: some other binary root format must take over
	vReach("handover")
	// cheap witness search first: one concrete member of this path class (a model of the path condition) is run
	// through the other formats concretely; if none takes over, that member is the counterexample. Otherwise the
	// for-all evaluation below decides the whole class.
	if pr := vProbe(raw, l2); len(pr) == n+4 {
		cl2 := uint32(pr[n]) | uint32(pr[n+1])<<8 | uint32(pr[n+2])<<16 | uint32(pr[n+3])<<24
		craw := pr[:n:n]
		taken := false
		for _, o := range append([]*MIME{mdb, accdb}, kids...) {
			if o == text || o == d {
				continue
			}
			if o.detector(craw, cl2) {
				taken = true
				break
			}
		}
		if !taken {
			vAssume(vSameBytes(raw, craw) && l2 == cl2)
			vAssert(false, "longer-header-still-binary")
		}
	}
	other := false
	// existence is order-independent: the formats the font check defers to are tried first
	for _, o := range append([]*MIME{mdb, accdb}, kids...) {
		if o == text || o == d {
			continue
		}
		if o.detector(raw, l2) {
			other = true
			break
		}
	}
	vAssert(other, "longer-header-still-binary")
	vReach("end")
}
