//go:build verif

package mimetype

type c14Snap struct {
	mime, ext []string
}

func c14Snapshot(r *MIME) c14Snap {
	var s c14Snap
	for p := r; p != nil; p = p.parent {
		s.mime = append(s.mime, p.mime)
		s.ext = append(s.ext, p.extension)
	}
	return s
}

func c14Same(a, b c14Snap) bool {
	if len(a.mime) != len(b.mime) {
		return false
	}
	for i := range a.mime {
		if a.mime[i] != b.mime[i] || a.ext[i] != b.ext[i] {
			return false
		}
	}
	return true
}

// HC14Extend: Extend (package level and method) and Lookup on the real tree with symbolic
// detector verdicts: an extension sits in front of the siblings present at registration, results
// for inputs that every extension rejects are unchanged, Lookup finds names and aliases with the
// right parent, and a value returned earlier is unaffected by later registrations.
func HC14Extend() {
	s := l1Setup()
	iv := vChoice("input", 4)
	in := [][]byte{[]byte("x"), {}, []byte("xy"), []byte("xyz")}[iv]
	lim := []uint32{3072, 0, 0, 2}[iv]
	oldLimit := readLimit
	SetLimit(lim)
	s.raw, s.limit = in, lim
	if lim > 0 && len(in) > int(lim) {
		s.raw = in[:lim]
	}
	// a Lookup before the registrations (whatever index or cache it builds must not hide later registrations)
	lookupFirst := iv == 0 && vChoice("lookupFirst", 2) == 1
	if lookupFirst {
		vAssert(Lookup("text/plain") == text, "lookup-before-extend")
		vAssert(Lookup("application/x-verif-alias0") == nil, "lookup-unknown-before-extend")
	}
	r0 := Detect(in)
	snap0 := c14Snapshot(r0)
	want0 := s.oracleWalk()

	// scenarios: attachment points (nil = none), package-level flag for the first call, alias count
	type scen struct {
		at0, at1 *MIME
		pkg      bool
		second   int // 0 none, 1 = attach to at1, 2 = attach to the first extension
		aliases  int
	}
	scens := []scen{
		{root, nil, true, 0, 2}, {root, nil, false, 0, 0}, {text, nil, false, 0, 1}, {zip, nil, false, 0, 0},
		{json, nil, false, 0, 2}, {html, nil, false, 0, 0}, {geoJSON, nil, false, 0, 0},
		{root, root, true, 1, 1}, {text, nil, false, 2, 0}, {zip, zip, false, 1, 0}, {json, text, false, 1, 0}, {ole, root, false, 1, 2},
	}
	var sc scen
	scIndex := 0
	if vChoice("tier", 2) == 1 && vChoice("everywhere", 2) == 1 {
		scIndex = vChoice("attach", len(s.nodes))
		sc = scen{s.nodes[scIndex], nil, false, 0, 1}
	} else {
		scIndex = vChoice("scenario", len(scens))
		sc = scens[scIndex]
		// the two extra inputs (unlimited non-empty header, header cut by the limit) run the one-Extend scenarios
		vAssume(iv < 2 || sc.second == 0)
	}
	nExt := 1
	if sc.second != 0 {
		nExt = 2
	}
	var exts []*MIME
	var ats []*MIME
	for e := 0; e < nExt; e++ {
		at := sc.at0
		usePkgLevel := sc.pkg && e == 0
		if e == 1 {
			if sc.second == 2 {
				at = exts[0]
			} else {
				at = sc.at1
			}
		}
		old := append([]*MIME(nil), at.children...)
		i, det := s.newExtDetector()
		name := "application/x-verif-ext" + l1Itoa(e)
		aliases := []string{"application/x-verif-alias" + l1Itoa(e), "application/x-verif-other" + l1Itoa(e)}
		aliases = aliases[:sc.aliases]
		switch (vChoice("scenarioEcho", 1) + scIndex) % 4 {
		case 1: // the new format re-uses a built-in type name that sits later in the walk
			name = "text/csv"
		case 2: // ... or a built-in alias
			aliases = append(aliases, "application/x-zip")
		case 3: // ... or the name of the extension registered just before
			if e == 1 {
				name = "application/x-verif-ext0"
			}
		}
		extn := ".vx" + l1Itoa(e)
		if iv == 0 && !lookupFirst && vChoice("sameExtension", 2) == 1 {
			// re-registration: the new format also re-uses the extension of the format whose name it re-uses
			// (a built-in child, or the extension registered just before); it is still a new node in front
			switch {
			case name == "text/csv":
				extn = ".csv"
			case e == 1 && name == "application/x-verif-ext0":
				extn = ".vx0"
			case at == text && e == 0 && len(aliases) == 1:
				name, extn = "application/json", ".json"
			default:
				vAssume(false)
			}
		}
		if usePkgLevel {
			Extend(det, name, extn, aliases...)
		} else {
			at.Extend(det, name, extn, aliases...)
		}
		ext := at.children[0]
		s.bind(i, ext)
		exts = append(exts, ext)
		ats = append(ats, at)
		vAssert(ext.parent == at, "extension-parent")
		vAssert(ext.mime == name && ext.extension == extn, "extension-name")
		for _, o := range old {
			vAssert(o != ext, "extension-is-a-new-node")
		}
		vAssert(len(at.children) == len(old)+1, "one-child-added")
		for k := range old {
			vAssert(at.children[k+1] == old[k], "older-siblings-keep-order-behind-extension")
		}
		// Lookup finds the name and every alias, with the right parent
		l := Lookup(name)
		vAssert(l == l1DFSFind(root, name), "lookup-name-is-first-in-walk-order")
		for _, a := range aliases {
			la := Lookup(a)
			vAssert(la == l1DFSFind(root, a), "lookup-alias-is-first-in-walk-order")
		}
		if (name != "text/csv" && name != "application/json") || at == root {
			// a fresh name (or a root-level re-use, which precedes every built-in) resolves to the extension itself
			if name != "application/x-verif-ext0" || e == 0 || at == root || at == exts[0] || ats[0] != root {
				vAssert(l == ext || l1DFSFind(root, name) != ext, "lookup-name")
			}
		}
		if l == ext {
			vAssert(l.Parent() == at, "lookup-parent")
		}
		for _, probe := range []string{"text/csv", "application/x-zip", "application/json", "application/x-verif-ext0"} {
			vAssert(Lookup(probe) == l1DFSFind(root, probe), "lookup-agrees-with-walk-order")
		}
	}
	// second detection with the same verdicts
	s.onceOK = true
	r1 := Detect(in)
	SetLimit(oldLimit)
	want1 := s.oracleWalk()
	l1CheckChain(r1, want1, "after")
	anyExtTrue := false
	for _, e := range exts {
		// an extension whose detector is never reached counts as "rejecting" only if asked; ask now
		if s.verdictOf(e) {
			anyExtTrue = true
		}
	}
	if !anyExtTrue {
		vAssert(c14Same(c14Snapshot(r1), snap0), "rejected-by-all-extensions-implies-unchanged")
		vAssert(want1 == want0, "rejected-by-all-extensions-implies-same-node")
	}
	// an input that reaches the extension's parent and satisfies the extension is classified under it
	for k, e := range exts {
		reaches := true
		for p := ats[k]; p != nil && p != root; p = p.parent {
			if !s.verdictOf(p) {
				reaches = false
			}
			// the walk must also not be diverted by a sibling in front of p: covered by want1 below
		}
		if reaches && s.verdictOf(e) {
			under := false
			onPath := false
			for p := want1; p != nil; p = p.parent {
				if p == ats[k] {
					onPath = true
				}
				if p == e {
					under = true
				}
			}
			if onPath {
				// the walk reached the parent: the newest matching extension of that parent wins over older siblings
				newer := false
				for j := k + 1; j < len(exts); j++ {
					if ats[j] == ats[k] && s.verdictOf(exts[j]) {
						newer = true
					}
				}
				if !newer {
					vAssert(under, "matching-extension-wins-over-older-siblings")
				}
			}
		}
	}
	// the value returned before the registrations is untouched
	vAssert(c14Same(c14Snapshot(r0), snap0), "earlier-result-unaffected")
	vAssert(s.argsOK, "detectors-get-match-arguments")
	vReach("end")
}

// HC14OnResult: Extend called on a value returned by an earlier detection (a clone, not a tree node).
// Whatever that does, later results keep the shape C02 demands (bare ancestors that equal the
// registered chain), the earlier value keeps its chain, and inputs the new detector rejects are
// classified as before.
func HC14OnResult() {
	s := l1Setup()
	in := []byte("x")
	old := readLimit
	SetLimit(3072)
	s.raw, s.limit = in, 3072
	r0 := Detect(in)
	snap0 := c14Snapshot(r0)
	orig := len(s.nodes)
	before := make([]int, orig)
	for k, n := range s.nodes {
		before[k] = len(n.children)
	}
	i, det := s.newExtDetector()
	r0.Extend(det, "text/x-verif-onresult", ".vr", "text/x-verif-onresult-alias")
	var ext *MIME
	if len(r0.children) > 0 {
		ext = r0.children[0]
	}
	for k := 0; k < orig; k++ {
		if n := s.nodes[k]; len(n.children) != before[k] {
			ext = n.children[0]
		}
	}
	if ext != nil {
		s.bind(i, ext)
	}
	s.onceOK = true
	r1 := Detect(in)
	SetLimit(old)
	want1 := s.oracleWalk()
	l1CheckChain(r1, want1, "onresult")
	for p := r1.parent; p != nil; p = p.parent {
		for k := 0; k < len(p.mime); k++ {
			vAssert(p.mime[k] != ';', "onresult:ancestors-carry-no-parameters")
		}
		if p.parent == nil {
			vAssert(p.mime == "application/octet-stream", "onresult:chain-ends-at-octet-stream")
		}
	}
	vAssert(c14Same(c14Snapshot(r0), snap0), "onresult:earlier-result-unaffected")
	if ext == nil || !s.verdictOf(ext) {
		vAssert(c14Same(c14Snapshot(r1), snap0), "onresult:rejected-implies-unchanged")
	}
	vReach("end")
}
