//go:build verif

package json

import (
	vruntime "runtime"
	vdebug "runtime/debug"
)

// jsAlpha restricts b to the JSON structural alphabet (assumption, stated in the evidence).
func jsAlpha(b []byte, alpha string) {
	for _, c := range b {
		ok := false
		for k := 0; k < len(alpha); k++ {
			if c == alpha[k] {
				ok = true
			}
		}
		vAssume(ok)
	}
}

// HC10Balance: consumeArray / consumeObject leave the key-path stack exactly as they found it
// whenever they succeed, from an arbitrary stack height (inductive step of C10: the path seen by
// queryPathMatch is the list of keys of the enclosing objects only).
func HC10Balance() {
	maxN := vChoice("maxlen", 32)
	b := vBytes("b", 1, maxN)
	jsAlpha(b, "[]{}\":,1a ")
	h := vChoice("height", 3)
	p := &parserState{maxRecursion: maxRecursion}
	for i := 0; i < h; i++ {
		p.currPath = append(p.currPath, []byte("k"))
	}
	before := len(p.currPath)
	which := vChoice("fn", 2)
	var n int
	if which == 0 {
		n = p.consumeArray(b, queries[QueryGeo], 1)
		if n > 0 {
			// consumeArray pushes its own marker at entry and must pop it on success
			vAssert(len(p.currPath) == before, "array-balanced")
		}
	} else {
		n = p.consumeObject(b, queries[QueryGeo], 1)
		if n > 0 {
			vAssert(len(p.currPath) == before, "object-balanced")
		}
	}
	vReach("end")
}

// HC16Guard: the recursion guard from an arbitrary level and an arbitrary positive cap
// (64-bit symbolic values): beyond the cap consumeAny returns 0 without looking at the input
// and without descending.
func HC16Guard() {
	maxN := vChoice("maxlen", 32)
	b := vBytes("b", 0, maxN)
	capv := vInt("cap", 1, 1<<62)
	lvl := vInt("lvl", 0, 1<<62)
	p := &parserState{maxRecursion: capv}
	vDepthReset()
	n := p.consumeAny(b, nil, lvl)
	d := vDepthMax()
	if lvl > capv {
		vAssert(n == 0, "beyond-cap-returns-0")
		vAssert(p.ib == 0, "beyond-cap-inspects-nothing")
		vAssert(d <= 1, "beyond-cap-no-descent")
	}
	vReach("end")
}

// HC16Depth: with a private state of cap k, on every input of the bracket alphabet the
// interpreter's call depth below consumeAny is bounded by 2*(k+1)+3 frames, and a document that
// parses completely has no bracket nested deeper than k+1.
func HC16Depth() {
	maxN := vChoice("maxlen", 32)
	k := 1 + vChoice("cap", 3)
	b := vBytes("b", 1, maxN)
	jsAlpha(b, "[]{}\":a ")
	p := &parserState{maxRecursion: k}
	vDepthReset()
	n := p.consumeAny(b, nil, 0)
	d := vDepthMax()
	if vSymbolic() {
		vAssert(d <= 2*(k+1)+3, "stack-depth-bounded-by-cap")
	}
	if n == len(b) && !p.failed {
		depth, maxDepth := 0, 0
		inStr := false
		for i := 0; i < len(b); i++ {
			c := b[i]
			if inStr {
				if c == '"' {
					inStr = false
				}
				continue
			}
			switch c {
			case '"':
				inStr = true
			case '[', '{':
				depth++
				if depth > maxDepth {
					maxDepth = depth
				}
			case ']', '}':
				depth--
			}
		}
		vAssert(maxDepth <= k+1, "accepted-implies-nesting-within-cap")
	}
	vReach("end")
}

// HC16Pool: the pooled state carries the fixed cap, before and after a Parse of arbitrary bytes.
func HC16Pool() {
	maxN := vChoice("maxlen", 32)
	b := vBytes("b", 0, maxN)
	p0 := parserPool.New().(*parserState)
	vAssert(p0.maxRecursion == 4096, "pool-new-installs-cap")
	Parse(QueryNone, b)
	p1 := parserPool.Get().(*parserState)
	vAssert(p1.maxRecursion == 4096, "cap-unchanged-after-parse")
	vReach("end")
}

// HC04Pool: Parse from a fresh state and from an arbitrary recycled state gives identical results
// (the pooled parser state does not leak into the next detection).
func HC04Pool() {
	maxN := vChoice("maxlen", 32)
	raw := vBytes("raw", 0, maxN)
	q := [4]string{QueryNone, QueryGeo, QueryHAR, QueryGLTF}[vChoice("query", 4)]
	// run 1: the pool hands out New()
	a1, a2, a3, a4 := Parse(q, raw)
	// drain what run 1 put back, then seed the pool with an arbitrary recycled state
	parserPool.Get()
	dirty := &parserState{maxRecursion: maxRecursion}
	dirty.ib = vInt("dirty.ib", 0, 1<<40)
	dirty.firstToken = vInt("dirty.firstToken", 0, 1024)
	dirty.querySatisfied = vBool("dirty.querySatisfied")
	dirty.failed = vBool("dirty.failed")
	h := vChoice("dirty.height", 4)
	backing := make([][]byte, h, 4)
	for i := 0; i < h; i++ {
		backing[i] = vBytes("dirty.key", 0, 2)
	}
	dirty.currPath = backing
	parserPool.Put(dirty)
	b1, b2, b3, b4 := Parse(q, raw)
	vAssert(a1 == b1, "same-parsed")
	vAssert(a2 == b2, "same-inspected")
	vAssert(a3 == b3, "same-first-token")
	vAssert(a4 == b4, "same-query-satisfied")
	vReach("end")
}

// c08Nested builds a well-formed document of exactly d nested containers of the given shape
// (0 arrays, 1 objects, 2 alternating) around a scalar, with optional single spaces (symbolic choice).
func c08Nested(shape, d int, scalar bool) []byte {
	var open, close []byte
	for i := 0; i < d; i++ {
		obj := shape == 1 || (shape == 2 && i%2 == 1)
		if obj {
			open = append(open, '{', '"', 'k', '"', ':')
			close = append([]byte{'}'}, close...)
		} else {
			open = append(open, '[')
			close = append([]byte{']'}, close...)
		}
	}
	out := append([]byte{}, open...)
	if scalar {
		out = append(out, '1')
	} else {
		out = append(out, '[', ']')
	}
	return append(out, close...)
}

// HC08Depth: with a private state of cap k, every well-formed document whose values all sit at
// depth <= k is parsed to its end (the depth budget is spent once per container, whatever its kind);
// one level more is refused. With k = 4096 this is the property's "nesting depth up to 4096".
func HC08Depth() {
	k := 1 + vChoice("cap", 6)
	shape := vChoice("shape", 3)
	d := vChoice("depth", k+3)
	scalar := vChoice("scalar", 2) == 1
	doc := c08Nested(shape, d, scalar)
	p := &parserState{maxRecursion: k}
	n := p.consumeAny(doc, nil, 0)
	// depth of the innermost value: d for a scalar, d for the empty array itself (no value inside it)
	if d <= k {
		vAssert(n == len(doc) && !p.failed, "within-cap-is-parsed")
	}
	if d > k+1 || (scalar && d > k) {
		vAssert(p.failed || n != len(doc), "beyond-cap-is-refused")
	}
	vReach("end")
}

// HC04History: the pooled parser after a *real* earlier parse (not a hand-made dirty state): any
// first input over the structural alphabet - complete, failing half-way, cut inside an array or
// object - followed by a second document must give the second document the verdict a fresh parser gives.
func HC04History() {
	maxN := vChoice("maxlen", 32)
	first := vBytes("first", 0, maxN)
	jsAlpha(first, "[]{}\":,1a ")
	q1 := [4]string{QueryNone, QueryGeo, QueryHAR, QueryGLTF}[vChoice("query1", 4)]
	docs := []string{`{"type":"Feature"}`, `{"bbox":[1,2,3,4],"type":"Feature"}`, `{"log":{"version":"1.2"}}`, `{"asset":{"version":"2.0"}}`, `{"a":[1,2],"b":{"c":null}}`, `[1,[2,[3]]]`, `{"version":"2.0"}`}
	second := []byte(docs[vChoice("second", len(docs))])
	q2 := [4]string{QueryNone, QueryGeo, QueryHAR, QueryGLTF}[vChoice("query2", 4)]
	// reference: fresh parser (empty pool)
	for parserPool.Get() != nil && len(docs) == 0 {
	}
	a1, a2, a3, a4 := Parse(q2, second)
	// history: drop what the reference run left, run the first parse on a fresh state, then the second
	parserPool.Get()
	Parse(q1, first)
	b1, b2, b3, b4 := Parse(q2, second)
	vAssert(a1 == b1 && a2 == b2 && a3 == b3, "history-same-counts")
	vAssert(a4 == b4, "history-same-query-verdict")
	vReach("end")
}

// HC16History: concrete nesting bombs and deep cut documents as earlier parses; afterwards the
// pooled state must still carry the cap, and a bomb examined next must still be refused.
func HC16History() {
	rep := func(s string, n int) []byte {
		var out []byte
		for i := 0; i < n; i++ {
			out = append(out, s...)
		}
		return out
	}
	firsts := [][]byte{rep("[", 200), rep(`{"k":`, 150), rep("[", 5000), rep(`[{"k":`, 100), []byte(`{"a":[1,2`)}
	first := firsts[vChoice("first", len(firsts))]
	Parse(QueryNone, first)
	p := parserPool.Get().(*parserState)
	vAssert(p.maxRecursion == 4096, "cap-survives-deep-history")
	parserPool.Put(p)
	bomb := rep("[", 4200)
	bomb = append(bomb, rep("]", 4200)...)
	parsed, _, _, _ := Parse(QueryNone, bomb)
	vAssert(parsed != len(bomb), "bomb-beyond-cap-refused-after-history")
	vReach("end")
}

// HC16Chain: the real Parse (pooled state) with a scaled-down cap k installed in the pooled state
// (the cap is only ever compared with the level in consumeAny - HC16Guard - so behaviour is
// parametric in it): the input is a chain of d concrete openers (arrays, objects as member
// values, or alternating) followed by a short symbolic tail. The interpreter's call depth stays
// within a bound that depends on k only, not on d, and an input nested deeper than the cap is
// never reported as parsed completely - whatever the kind of container and whatever follows.
func HC16Chain() {
	maxN := vChoice("maxlen", 32)
	k := 1 + vChoice("cap", 2)
	d := vChoice("depth", 13)
	shape := vChoice("shape", 3)
	var in []byte
	for i := 0; i < d; i++ {
		if shape == 1 || (shape == 2 && i%2 == 1) {
			in = append(in, '{', '"', 'k', '"', ':')
		} else {
			in = append(in, '[')
		}
	}
	tail := vBytes("tail", 0, maxN)
	jsAlpha(tail, "[]{}\":1 ")
	in = append(in, tail...)
	q := [2]string{QueryNone, QueryGeo}[vChoice("query", 2)]
	for parserPool.Get() != nil && d < 0 {
	}
	parserPool.Put(&parserState{maxRecursion: k})
	vDepthReset()
	parsed, _, _, _ := Parse(q, in)
	dep := vDepthMax()
	if vSymbolic() {
		vAssert(dep <= 2*(k+1)+6, "chain-stack-depth-bounded-by-cap")
	} else {
		// native replay of a depth finding: the same chain shape, 400000 openers deep, through the real
		// pool (cap 4096): the goroutine's stack must not grow with the input
		var big []byte
		for i := 0; i < 400000; i++ {
			if shape == 1 || (shape == 2 && i%2 == 1) {
				big = append(big, '{', '"', 'k', '"', ':')
			} else {
				big = append(big, '[')
			}
		}
		grew := make(chan uint64)
		go func() {
			old := vdebug.SetGCPercent(-1)
			var m0, m1 vruntime.MemStats
			vruntime.ReadMemStats(&m0)
			Parse(q, big)
			vruntime.ReadMemStats(&m1)
			vdebug.SetGCPercent(old)
			grew <- m1.StackInuse - m0.StackInuse
		}()
		vAssert(<-grew < 32<<20, "chain-stack-depth-bounded-by-cap")
	}
	// nesting depth of the input (brackets outside strings)
	depth, maxDepth := 0, 0
	inStr := false
	for i := 0; i < len(in); i++ {
		c := in[i]
		if inStr {
			if c == '"' {
				inStr = false
			}
			continue
		}
		switch c {
		case '"':
			inStr = true
		case '[', '{':
			depth++
			if depth > maxDepth {
				maxDepth = depth
			}
		case ']', '}':
			depth--
		}
	}
	if maxDepth > k+1 {
		vAssert(parsed != len(in), "chain-beyond-cap-not-parsed-completely")
	}
	vReach("end")
}

// HC04Pool2: the pooled-state obligation as a two-step history. Step 0: the pool holds an arbitrary
// parser state (symbolic fields; key-path stack of height 0, 2 or 129). Step 1: a real Parse of one of
// a few first inputs (complete, cut inside an array / object / string, deep, empty) runs on it and
// hands it back - so what step 2 receives is a state that a real Parse *released*, whatever
// discipline (reset on entry, reset on release) the code follows. Step 2: Parse(q, raw) on arbitrary
// bytes must answer exactly what a fresh parser answers.
func HC04Pool2() {
	maxN := vChoice("maxlen", 32)
	raw := vBytes("raw", 0, maxN)
	q := [4]string{QueryNone, QueryGeo, QueryHAR, QueryGLTF}[vChoice("query", 4)]
	a1, a2, a3, a4 := Parse(q, raw) // fresh parser (empty pool)
	parserPool.Get()                // drop what the reference run released
	dirty := &parserState{maxRecursion: maxRecursion}
	dirty.ib = vInt("dirty.ib", 0, 1<<40)
	dirty.firstToken = vInt("dirty.firstToken", 0, 1024)
	dirty.querySatisfied = vBool("dirty.querySatisfied")
	dirty.failed = vBool("dirty.failed")
	h := [3]int{0, 2, 129}[vChoice("dirty.height", 3)]
	backing := make([][]byte, h, h+1)
	for i := 0; i < h && i < 3; i++ {
		backing[i] = vBytes("dirty.key", 0, 2)
	}
	dirty.currPath = backing
	parserPool.Put(dirty)
	firsts := []string{"[", `[1,2]`, `{"log":{"version":"1","a":[{"b":"c`, `x`}
	Parse(q, []byte(firsts[vChoice("first", len(firsts))]))
	b1, b2, b3, b4 := Parse(q, raw)
	vAssert(a1 == b1, "same-parsed")
	vAssert(a2 == b2, "same-inspected")
	vAssert(a3 == b3, "same-first-token")
	vAssert(a4 == b4, "same-query-satisfied")
	vReach("end")
}
