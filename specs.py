"""Per-property check specifications: which harnesses run, with which bounds."""

def fix(**kw):
    out = []
    for k, v in kw.items():
        out += ["-fix", "%s=%d" % (k, v)]
    return out

SPECS = {}

SPECS["C01"] = {
    "explanation": "Crash freedom and termination of every registered signature check, of the charset sniffers and of the entry points, "
                   "decided by symbolic execution of the real code: every Go run-time check (index, slice bounds, nil, division, type assertion) "
                   "on every explored path is an obligation; a reachable failing check yields a model that is replayed natively.",
    "units": [
        {"name": "nodes", "pkg": "mimetype", "harnesses": ["HC01Node"], "quick_args": fix(tier=0), "thorough_args": fix(tier=1),
         "quick_shards": 48, "thorough_shards": 64},
        {"name": "offsets", "pkg": "mimetype", "harnesses": ["HC01Offset"], "quick_args": fix(maxlen=32),
         "thorough_args": fix(maxlen=72), "quick_shards": 48, "thorough_shards": 64},
        {"name": "scanners", "pkg": "mimetype", "harnesses": ["HC01Scanner"], "quick_args": fix(maxlen=5),
         "thorough_args": fix(maxlen=8), "quick_shards": 48, "thorough_shards": 64},
        {"name": "charset", "pkg": "charset", "harnesses": ["HC01Charset"], "quick_args": fix(maxlen=3), "thorough_args": fix(maxlen=4),
         "quick_shards": 8, "thorough_shards": 16},
    ],
    "must_reach": ["end"],
    "bounds": {"quick": {"non_looping_detectors": "header lengths 0..64 and all lengths within 4 bytes of every length guard up to 4196, all byte values, all uint32 limits",
                         "looping_detectors": "header length <= 10", "charset": "length <= 5"},
               "thorough": {"non_looping_detectors": "every header length 0..4300", "looping_detectors": "header length <= 20", "charset": "length <= 8"}},
    "outside": ["32-bit int", "lengths above the stated bounds", "panics inside time.Parse when called on symbolic strings (contract stub)"],
    "assumptions": ["64-bit int", "intrinsics are faithful models (engine/symgo/intrinsics.go)"],
}
