"""Per-property check specifications: which harnesses run, with which bounds."""

def fix(**kw):
    out = []
    for k, v in kw.items():
        out += ["-fix", "%s=%d" % (k, v)]
    return out

SPECS = {}

SPECS["C01"] = {
    "explanation": "Crash freedom and termination of every registered signature check, of the charset sniffers and of the entry points, "
                   "decided by symbolic execution of the real code: every Go run-time check (index, slice bounds, nil, division, type assertion) "
                   "on every explored path is an obligation; a reachable failing check yields a model that is replayed natively.",
    "units": [
        {"name": "nodes", "pkg": "mimetype", "harnesses": ["HC01Node"], "quick_args": fix(tier=0), "thorough_args": fix(tier=1),
         "quick_shards": 48, "thorough_shards": 64},
        {"name": "offsets", "pkg": "mimetype", "harnesses": ["HC01Offset"], "quick_args": fix(maxlen=32),
         "thorough_args": fix(maxlen=72), "quick_shards": 48, "thorough_shards": 64},
        {"name": "scanners", "pkg": "mimetype", "harnesses": ["HC01Scanner"], "quick_args": fix(maxlen=5),
         "thorough_args": fix(maxlen=8), "quick_shards": 48, "thorough_shards": 64},
        {"name": "charset", "pkg": "charset", "harnesses": ["HC01Charset"], "quick_args": fix(maxlen=3), "thorough_args": fix(maxlen=4),
         "quick_shards": 8, "thorough_shards": 16},
    ],
    "must_reach": ["end"],
    "bounds": {"quick": {"non_looping_detectors": "header lengths 0..64 and all lengths within 4 bytes of every length guard up to 4196, all byte values, all uint32 limits",
                         "looping_detectors": "header length <= 10", "charset": "length <= 5"},
               "thorough": {"non_looping_detectors": "every header length 0..4300", "looping_detectors": "header length <= 20", "charset": "length <= 8"}},
    "outside": ["32-bit int", "lengths above the stated bounds", "panics inside time.Parse when called on symbolic strings (contract stub)"],
    "assumptions": ["64-bit int", "intrinsics are faithful models (engine/symgo/intrinsics.go)"],
}

SPECS["C07"] = {
    "explanation": "magic.Text(raw, limit) is compared on every path with an independent oracle (BOM table, WHATWG binary-data byte table) "
                   "written in the harness; the tree-level half (text is the last root child, text sub-formats are only consulted after "
                   "text matched, the walk reports text iff its detector accepted) is decided on the real tree with symbolic detector verdicts.",
    "units": [
        {"name": "text", "pkg": "magic", "harnesses": ["HC07Text"], "quick_args": fix(maxlen=48), "thorough_args": fix(maxlen=160),
         "quick_shards": 16, "thorough_shards": 32},
    ],
    "must_reach": ["end", "assert:text-iff-bom-or-no-binary-byte"],
    "bounds": {"quick": {"header_length": "0..48, all byte values, all uint32 limits"}, "thorough": {"header_length": "0..160"}},
    "outside": ["headers longer than the bound (Text is a single loop over the header; no length-dependent state)"],
    "assumptions": ["only the first `limit` bytes reach the tree walk (checked by C04/C05 harnesses)"],
}

SPECS["C11"] = {
    "explanation": "charset.FromPlain on every byte string without binary-data bytes, against an independent RFC 3629 DFA (validCut), "
                   "the BOM table and the C1-range rule, all executed symbolically together with the real utf8.Valid.",
    "units": [
        {"name": "plain", "pkg": "charset", "harnesses": ["HC11Plain"], "quick_args": fix(maxlen=4), "thorough_args": fix(maxlen=6),
         "quick_shards": 16, "thorough_shards": 48},
    ],
    "must_reach": ["end", "assert:utf8-only-if-valid", "assert:utf8-always-when-valid", "assert:cp1252-needs-c1-byte", "assert:latin1-excludes-c1-byte"],
    "bounds": {"quick": {"length": "1..4, all byte values except binary-data bytes"}, "thorough": {"length": "1..6"}},
    "outside": ["strings longer than the bound", "charset sniffing applied to the three text leaves is the tree-level claim shared with C02"],
    "assumptions": [],
}

SPECS["C09"] = {
    "explanation": "magic.JSON / GeoJSON / HAR / GLTF (with the real internal/json scanner) on arbitrary bytes, in whole and truncated mode, "
                   "against an independent three-valued reference recogniser for the relaxed grammar (RFC 8259 structure plus the three "
                   "documented lexical leniencies) executed symbolically in the same run.",
    "units": [
        {"name": "whole", "pkg": "magic", "harnesses": ["HC09Whole"], "quick_args": fix(maxlen=5), "thorough_args": fix(maxlen=7),
         "quick_shards": 32, "thorough_shards": 64},
        {"name": "prefix", "pkg": "magic", "harnesses": ["HC09Prefix"], "quick_args": fix(maxlen=5), "thorough_args": fix(maxlen=7),
         "quick_shards": 32, "thorough_shards": 64},
        {"name": "sub", "pkg": "magic", "harnesses": ["HC09Sub"], "quick_args": fix(maxlen=4), "thorough_args": fix(maxlen=6),
         "quick_shards": 16, "thorough_shards": 64},
    ],
    "must_reach": ["end", "assert:whole-json-implies-wellformed", "assert:prefix-json-implies-viable-prefix"],
    "bounds": {"quick": {"length": "<= 5 (sub-types <= 4), all 256 byte values, limits 0 / len+1 / len"}, "thorough": {"length": "<= 7 (sub-types <= 6)"}},
    "outside": ["documents longer than the bound", "nesting deeper than the bound allows"],
    "assumptions": [],
}

SPECS["C08"] = {
    "explanation": "every strict RFC 8259 object/array (reference recogniser in the harness, executed symbolically as the assumption) must be "
                   "accepted by magic.JSON examined in full (limits 0, len+1, MaxUint32) and at every cut after the opening bracket (limit = cut).",
    "units": [
        {"name": "strict", "pkg": "magic", "harnesses": ["HC08"], "quick_args": fix(maxlen=5), "thorough_args": fix(maxlen=7),
         "quick_shards": 32, "thorough_shards": 64},
    ],
    "must_reach": ["end", "assert:cut", "assert:whole-limit0"],
    "bounds": {"quick": {"length": "2..5, all byte values (string contents restricted to printable ASCII)"}, "thorough": {"length": "2..7"}},
    "outside": ["documents longer than the bound", "string contents outside printable ASCII", "the 4096 nesting cap (C16)"],
    "assumptions": ["tree position of json under text/plain is covered by the tree-walk harnesses (C03)"],
}

SPECS["C16"] = {
    "explanation": "Recursion bound of the JSON scanner as one inductive step: consumeAny from an arbitrary (64-bit symbolic) level and cap refuses to "
                   "descend beyond the cap; with private caps 1..3 the interpreter's own call depth is bounded by 2(k+1)+3 frames on every input "
                   "and accepted documents nest at most k+1 deep; the pool constructor installs 4096 and Parse never changes it.",
    "units": [
        {"name": "guard", "pkg": "json", "harnesses": ["HC16Guard"], "quick_args": fix(maxlen=3), "thorough_args": fix(maxlen=5), "quick_shards": 16, "thorough_shards": 32},
        {"name": "depth", "pkg": "json", "harnesses": ["HC16Depth"], "quick_args": fix(maxlen=7), "thorough_args": fix(maxlen=10), "quick_shards": 16, "thorough_shards": 48},
        {"name": "pool", "pkg": "json", "harnesses": ["HC16Pool"], "quick_args": fix(maxlen=3), "thorough_args": fix(maxlen=5), "quick_shards": 8, "thorough_shards": 32},
    ],
    "must_reach": ["end", "assert:beyond-cap-returns-0", "assert:stack-depth-bounded-by-cap", "assert:accepted-implies-nesting-within-cap", "assert:cap-unchanged-after-parse"],
    "bounds": {"quick": {"guard": "input <= 3 bytes (all values), lvl and cap arbitrary 62-bit", "depth": "input <= 7 bytes over {[ ] { } \" : a space}, cap 1..3"},
               "thorough": {"guard": "<= 5 bytes", "depth": "<= 10 bytes"}},
    "outside": ["stack bytes per frame (constant by construction)", "inputs longer than the bound for the depth measurement; the guard step itself is for arbitrary level/cap"],
    "assumptions": ["all JSON-family detectors reach the scanner only through json.Parse (functions_encoded lists the call chain)"],
}

SPECS["C10"] = {
    "explanation": "Key-path stack balance of consumeArray/consumeObject as an inductive step from an arbitrary stack height (symbolic input over the "
                   "structural alphabet), plus end-to-end sub-type verdicts of Detect on objects assembled from symbolic choices of sibling shapes, positions and whitespace.",
    "units": [
        {"name": "balance", "pkg": "json", "harnesses": ["HC10Balance"], "quick_args": fix(maxlen=6), "thorough_args": fix(maxlen=9), "quick_shards": 16, "thorough_shards": 48},
    ],
    "must_reach": ["end", "assert:array-balanced", "assert:object-balanced"],
    "bounds": {"quick": {"balance": "input <= 6 bytes over {[ ] { } \" : , 1 a space}, stack height 0..2"}, "thorough": {"balance": "<= 9 bytes"}},
    "outside": ["inputs longer than the bound"],
    "assumptions": [],
}

SPECS["C03"] = {
    "explanation": "The real match/clone/cloneHierarchy/Extend run on the real registered tree with every detector replaced by a symbolic verdict "
                   "(one solver variable per node, the same on every call, asserting it receives exactly match's arguments); the result chain is compared "
                   "with an independent first-match walk. Because the walk only learns those booleans, each path stands for all inputs of any length.",
    "units": [
        {"name": "walk", "pkg": "mimetype", "harnesses": ["HC03Walk"], "quick_args": fix(tier=0), "thorough_args": fix(tier=1), "quick_shards": 16, "thorough_shards": 48},
    ],
    "must_reach": ["end", "assert:walk:type", "assert:walk:no-child-matched", "assert:walk:ancestors-consulted-first", "assert:extend:parent"],
    "bounds": {"quick": {"trees": "built-in tree (179 nodes); +1 Extend at 12 representative nodes; +2 Extends over {root,text,zip,json,ole,first extension}", "inputs": "unbounded (verdict vectors)"},
               "thorough": {"trees": "built-in; +1 Extend at every one of the 179 nodes; +2 Extends as in quick"}},
    "outside": ["more than two Extend calls", "detectors whose verdict differs between calls on the same input (excluded by C04)"],
    "assumptions": ["detectors are pure functions of (raw, limit) (C04)"],
}

SPECS["C14"] = {
    "explanation": "The real Extend (package level and method), Lookup and match on the real tree with symbolic detector verdicts: position of the "
                   "extension among its siblings, Lookup of name and aliases, unchanged classification when every extension rejects, priority over "
                   "older siblings, and immutability of earlier results, for every verdict vector (hence every input).",
    "units": [
        {"name": "extend", "pkg": "mimetype", "harnesses": ["HC14Extend"], "quick_args": fix(tier=0), "thorough_args": fix(tier=1), "quick_shards": 32, "thorough_shards": 64},
    ],
    "must_reach": ["end", "assert:lookup-alias", "assert:rejected-by-all-extensions-implies-unchanged", "assert:matching-extension-wins-over-older-siblings", "assert:earlier-result-unaffected"],
    "bounds": {"quick": {"extends": "1 or 2 Extend calls at {root (package level and method), text, zip, json, ole, html, docx, geojson, the first extension, the first extension's parent}; 0..2 aliases"},
               "thorough": {"extends": "as quick, plus 1 Extend at every one of the 179 nodes"}},
    "outside": ["more than two Extend calls", "extension detectors that are not pure"],
    "assumptions": ["sync.RWMutex is a no-op stub in the single-threaded executor (locking is C06)"],
}
