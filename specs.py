"""Per-property check specifications: which harnesses run, with which bounds."""

def fix(**kw):
    out = []
    for k, v in kw.items():
        out += ["-fix", "%s=%d" % (k, v)]
    return out

SPECS = {}

SPECS["C01"] = {
    "explanation": "Crash freedom and termination of every registered signature check, of the charset sniffers and of the entry points, "
                   "decided by symbolic execution of the real code: every Go run-time check (index, slice bounds, nil, division, type assertion) "
                   "on every explored path is an obligation; a reachable failing check yields a model that is replayed natively.",
    "units": [
        {"name": "nodes", "pkg": "mimetype", "harnesses": ["HC01Node"], "quick_args": fix(tier=0), "thorough_args": fix(tier=1),
         "quick_shards": 48, "thorough_shards": 64},
        {"name": "offsets", "pkg": "mimetype", "harnesses": ["HC01Offset"], "quick_args": fix(maxlen=32),
         "thorough_args": fix(maxlen=72), "quick_shards": 48, "thorough_shards": 64},
        {"name": "scanners", "pkg": "mimetype", "harnesses": ["HC01Scanner"], "quick_args": fix(maxlen=6),
         "thorough_args": fix(maxlen=8), "quick_shards": 48, "thorough_shards": 64},
        {"name": "charset", "pkg": "charset", "harnesses": ["HC01Charset"], "quick_args": fix(maxlen=3), "thorough_args": fix(maxlen=4),
         "quick_shards": 8, "thorough_shards": 16},
        {"name": "sequence", "pkg": "mimetype", "harnesses": ["HC05Seq"], "quick_args": fix(maxlen=2), "thorough_args": fix(maxlen=3), "quick_shards": 32, "thorough_shards": 64},
        {"name": "data", "pkg": "mimetype", "harnesses": ["HC01Data"], "args": ["-max-instr", "30000000"], "quick_args": fix(dataTier=0, dataC02=0), "thorough_args": fix(dataTier=1, dataC02=0), "quick_shards": 48, "thorough_shards": 64},
    ],
    "must_reach": ["assert:data-reader-agrees-with-bytes", "assert:e2e-no-binary-byte-implies-classified", "assert:second-detection-ok", "end"],
    "bounds": {"quick": {"non_looping_detectors": "header lengths 0..64 and all lengths within 4 bytes of every length guard up to 4196, all byte values, all uint32 limits",
                         "looping_detectors": "every header length 0..6 (text family, matroska)", "charset": "length <= 3",
                         "data": "Detect + DetectReader on the first <= 96 bytes of every input of the repository's test table and testdata (215 headers), cuts {4,12,33,all}, last byte symbolic or not, one symbolic byte appended or not, limits {0,len,3072}"},
               "thorough": {"non_looping_detectors": "every header length 0..4300", "looping_detectors": "every header length 0..8", "charset": "length <= 4", "data": "as quick plus a symbolic byte at position 0 or 5"}},
    "outside": ["32-bit int", "lengths above the stated bounds", "panics inside time.Parse when called on symbolic strings (contract stub)"],
    "assumptions": ["64-bit int", "intrinsics are faithful models (engine/symgo/intrinsics.go)"],
}

SPECS["C07"] = {
    "explanation": "magic.Text(raw, limit) is compared on every path with an independent oracle (BOM table, WHATWG binary-data byte table) "
                   "written in the harness; end to end, the whole of Detect (real walk, real detectors) on the repository's own test headers with symbolic "
                   "perturbations reports text/plain in the chain only for a BOM or a header free of binary-data bytes, and never the bare root for such headers; the tree-level half (text is the last root child, text sub-formats are only consulted after "
                   "text matched, the walk reports text iff its detector accepted) is decided on the real tree with symbolic detector verdicts.",
    "units": [
        {"name": "text", "pkg": "magic", "harnesses": ["HC07Text"], "quick_args": fix(maxlen=100), "thorough_args": fix(maxlen=160),
         "quick_shards": 16, "thorough_shards": 32},
        {"name": "sequence", "pkg": "mimetype", "harnesses": ["HC05Seq"], "quick_args": fix(maxlen=2), "thorough_args": fix(maxlen=3), "quick_shards": 32, "thorough_shards": 64},
        {"name": "entry", "pkg": "mimetype", "harnesses": ["HC05Reader"], "quick_args": fix(maxlen=3), "thorough_args": fix(maxlen=4), "quick_shards": 16, "thorough_shards": 32},
        {"name": "data", "pkg": "mimetype", "harnesses": ["HC01Data"], "args": ["-max-instr", "30000000"], "quick_args": fix(dataTier=0, dataC02=0), "thorough_args": fix(dataTier=1, dataC02=0), "quick_shards": 48, "thorough_shards": 64},
    ],
    "must_reach": ["assert:e2e-text-implies-bom-or-no-binary-byte", "assert:e2e-no-binary-byte-implies-classified", "assert:detect-slices-to-limit", "assert:second-detection-header-within-limit", "end", "assert:text-iff-bom-or-no-binary-byte"],
    "bounds": {"quick": {"header_length": "0..100, all byte values, all uint32 limits"}, "thorough": {"header_length": "0..160"}},
    "outside": ["headers longer than the bound (Text is a single loop over the header; no length-dependent state)"],
    "assumptions": ["only the first `limit` bytes reach the tree walk (checked by C04/C05 harnesses)"],
}

SPECS["C11"] = {
    "explanation": "charset.FromPlain on every byte string without binary-data bytes, against an independent RFC 3629 DFA (validCut), "
                   "the BOM table and the C1-range rule, all executed symbolically together with the real utf8.Valid.",
    "units": [
        {"name": "plain", "pkg": "charset", "harnesses": ["HC11Plain"], "quick_args": fix(maxlen=5), "thorough_args": fix(maxlen=6),
         "quick_shards": 48, "thorough_shards": 64},
        {"name": "sequence", "pkg": "charset", "harnesses": ["HC11Seq"], "quick_args": fix(maxlen=2), "thorough_args": fix(maxlen=2),
         "quick_shards": 32, "thorough_shards": 64},
    ],
    "must_reach": ["assert:seq-utf8-always-when-valid", "assert:seq-repeat-same-answer", "end", "assert:utf8-only-if-valid", "assert:utf8-always-when-valid", "assert:cp1252-needs-c1-byte", "assert:latin1-excludes-c1-byte"],
    "bounds": {"quick": {"length": "1..5, all byte values except binary-data bytes; pairs of consecutive texts of 1..2 bytes each"}, "thorough": {"length": "1..6; pairs of 1..2 bytes"}},
    "outside": ["strings longer than the bound", "charset sniffing applied to the three text leaves is the tree-level claim shared with C02"],
    "assumptions": [],
}

SPECS["C09"] = {
    "explanation": "magic.JSON / GeoJSON / HAR / GLTF (with the real internal/json scanner) on arbitrary bytes, in whole and truncated mode, "
                   "against an independent three-valued reference recogniser for the relaxed grammar (RFC 8259 structure plus the three "
                   "documented lexical leniencies) executed symbolically in the same run.",
    "units": [
        {"name": "whole", "pkg": "magic", "harnesses": ["HC09Whole"], "quick_args": fix(maxlen=6), "thorough_args": fix(maxlen=7),
         "quick_shards": 32, "thorough_shards": 64},
        {"name": "prefix", "pkg": "magic", "harnesses": ["HC09Prefix"], "quick_args": fix(maxlen=6), "thorough_args": fix(maxlen=7),
         "quick_shards": 32, "thorough_shards": 64},
        {"name": "sub", "pkg": "magic", "harnesses": ["HC09Sub"], "quick_args": fix(maxlen=5), "thorough_args": fix(maxlen=6),
         "quick_shards": 16, "thorough_shards": 64},
        {"name": "subtail", "pkg": "magic", "harnesses": ["HC09SubTail"], "quick_args": fix(maxlen=4), "thorough_args": fix(maxlen=5), "quick_shards": 32, "thorough_shards": 64},
        {"name": "alpha", "pkg": "magic", "harnesses": ["HC09Alpha"], "quick_args": fix(maxlen=8), "thorough_args": fix(maxlen=10), "quick_shards": 48, "thorough_shards": 64},
        {"name": "chain", "pkg": "json", "harnesses": ["HC16Chain"], "quick_args": fix(maxlen=3), "thorough_args": fix(maxlen=3), "quick_shards": 32, "thorough_shards": 64},
    ],
    "must_reach": ["assert:subtype-tail-implies-wellformed", "assert:subtype-tail-implies-viable-prefix", "assert:chain-beyond-cap-not-parsed-completely", "assert:alpha-whole-json-implies-wellformed", "assert:alpha-prefix-json-implies-viable-prefix", "end", "assert:whole-json-implies-wellformed", "assert:prefix-json-implies-viable-prefix"],
    "bounds": {"quick": {"length": "<= 6 (sub-types <= 5), all 256 byte values, limits 0 / len+1 / len; <= 8 over the structural alphabet; chains of <= 12 concrete openers + <= 3 symbolic bytes through Parse with cap 1..2"}, "thorough": {"length": "<= 7 (sub-types <= 6); alphabet <= 10"}},
    "outside": ["documents longer than the bound", "nesting deeper than the bound allows"],
    "assumptions": [],
}

SPECS["C08"] = {
    "explanation": "every strict RFC 8259 object/array (reference recogniser in the harness, executed symbolically as the assumption) must be "
                   "accepted by magic.JSON examined in full (limits 0, len+1, MaxUint32) and at every cut after the opening bracket (limit = cut).",
    "units": [
        {"name": "strict", "pkg": "magic", "harnesses": ["HC08"], "quick_args": fix(maxlen=8), "thorough_args": fix(maxlen=9),
         "quick_shards": 32, "thorough_shards": 64},
        {"name": "depth", "pkg": "json", "harnesses": ["HC08Depth"], "quick_shards": 8, "thorough_shards": 8},
        {"name": "entry", "pkg": "mimetype", "harnesses": ["HC05Reader"], "quick_args": fix(maxlen=3), "thorough_args": fix(maxlen=4), "quick_shards": 16, "thorough_shards": 32},
    ],
    "must_reach": ["assert:within-cap-is-parsed", "end", "assert:cut", "assert:whole-limit0"],
    "bounds": {"quick": {"length": "2..8, all byte values (string contents restricted to printable ASCII)"}, "thorough": {"length": "2..9"}},
    "outside": ["documents longer than the bound", "string contents outside printable ASCII", "the 4096 nesting cap (C16)"],
    "assumptions": ["tree position of json under text/plain is covered by the tree-walk harnesses (C03)"],
}

SPECS["C16"] = {
    "explanation": "Recursion bound of the JSON scanner as one inductive step: consumeAny from an arbitrary (64-bit symbolic) level and cap refuses to "
                   "descend beyond the cap; with private caps 1..3 the interpreter's own call depth is bounded by 2(k+1)+3 frames on every input "
                   "and accepted documents nest at most k+1 deep; the pool constructor installs 4096 and Parse never changes it.",
    "units": [
        {"name": "guard", "pkg": "json", "harnesses": ["HC16Guard"], "quick_args": fix(maxlen=4), "thorough_args": fix(maxlen=5), "quick_shards": 16, "thorough_shards": 32},
        {"name": "depth", "pkg": "json", "harnesses": ["HC16Depth"], "quick_args": fix(maxlen=9), "thorough_args": fix(maxlen=10), "quick_shards": 16, "thorough_shards": 48},
        {"name": "pool", "pkg": "json", "harnesses": ["HC16Pool"], "quick_args": fix(maxlen=3), "thorough_args": fix(maxlen=5), "quick_shards": 8, "thorough_shards": 32},
        {"name": "history", "pkg": "json", "harnesses": ["HC16History"], "args": ["-max-instr", "60000000"], "quick_shards": 5, "thorough_shards": 5},
        {"name": "depthcap", "pkg": "json", "harnesses": ["HC08Depth"], "quick_shards": 8, "thorough_shards": 8},
        {"name": "chain", "pkg": "json", "harnesses": ["HC16Chain"], "quick_args": fix(maxlen=3), "thorough_args": fix(maxlen=3), "quick_shards": 32, "thorough_shards": 64},
    ],
    "must_reach": ["assert:chain-stack-depth-bounded-by-cap", "assert:chain-beyond-cap-not-parsed-completely", "assert:beyond-cap-is-refused", "assert:cap-survives-deep-history", "assert:bomb-beyond-cap-refused-after-history", "end", "assert:beyond-cap-returns-0", "assert:stack-depth-bounded-by-cap", "assert:accepted-implies-nesting-within-cap", "assert:cap-unchanged-after-parse"],
    "bounds": {"quick": {"guard": "input <= 4 bytes (all values), lvl and cap arbitrary 62-bit", "depth": "input <= 9 bytes over {[ ] { } \" : a space}, cap 1..3", "chain": "0..12 concrete openers (arrays / objects / alternating) + <= 3 symbolic bytes through the real Parse, cap 1..2"},
               "thorough": {"guard": "<= 5 bytes", "depth": "<= 10 bytes", "chain": "+ <= 3 symbolic bytes"}},
    "outside": ["stack bytes per frame (constant by construction)", "inputs longer than the bound for the depth measurement; the guard step itself is for arbitrary level/cap"],
    "assumptions": ["all JSON-family detectors reach the scanner only through json.Parse (functions_encoded lists the call chain)"],
}

SPECS["C10"] = {
    "explanation": "Key-path stack balance of consumeArray/consumeObject as an inductive step from an arbitrary stack height (symbolic input over the "
                   "structural alphabet), plus end-to-end sub-type verdicts of Detect on objects assembled from symbolic choices of sibling shapes, positions and whitespace.",
    "units": [
        {"name": "balance", "pkg": "json", "harnesses": ["HC10Balance"], "quick_args": fix(maxlen=7), "thorough_args": fix(maxlen=9), "quick_shards": 16, "thorough_shards": 48},
        {"name": "verdict", "pkg": "mimetype", "harnesses": ["HC10Verdict"], "quick_args": fix(siblings=1), "quick_shards": 32, "thorough_shards": 64},
        {"name": "history", "pkg": "json", "harnesses": ["HC04History"], "quick_args": fix(maxlen=3), "thorough_args": fix(maxlen=4), "quick_shards": 32, "thorough_shards": 64},
        {"name": "reuse", "pkg": "mimetype", "harnesses": ["HC04Reuse"], "args": ["-max-instr", "20000000"], "quick_shards": 32, "thorough_shards": 64},
    ],
    "must_reach": ["assert:reused-buffer-same-answer-as-fresh-copy", "assert:history-same-query-verdict", "assert:subtype-verdict-whole", "assert:subtype-verdict-cut-after-deciding-member", "end", "assert:array-balanced", "assert:object-balanced"],
    "bounds": {"quick": {"balance": "input <= 7 bytes over {[ ] { } \" : , 1 a space}, stack height 0..2"}, "thorough": {"balance": "<= 9 bytes"}},
    "outside": ["inputs longer than the bound"],
    "assumptions": [],
}

SPECS["C03"] = {
    "explanation": "The real match/clone/cloneHierarchy/Extend run on the real registered tree with every detector replaced by a symbolic verdict "
                   "(one solver variable per node, the same on every call, asserting it receives exactly match's arguments); the result chain is compared "
                   "with an independent first-match walk. Because the walk only learns those booleans, each path stands for all inputs of any length.",
    "units": [
        {"name": "walk", "pkg": "mimetype", "harnesses": ["HC03Walk"], "quick_args": fix(tier=0), "thorough_args": fix(tier=1), "quick_shards": 16, "thorough_shards": 48},
        {"name": "seq", "pkg": "mimetype", "harnesses": ["HC03Seq"], "quick_shards": 48, "thorough_shards": 64},
    ],
    "must_reach": ["assert:second:extension", "assert:first-result-unaffected-by-second-detection", "end", "assert:walk:type", "assert:walk:no-child-matched", "assert:walk:ancestors-consulted-first", "assert:extend:parent"],
    "bounds": {"quick": {"trees": "built-in tree (179 nodes); +1 Extend at 12 representative nodes; +2 Extends over {root,text,zip,json,ole,first extension}", "inputs": "unbounded (verdict vectors)"},
               "thorough": {"trees": "built-in; +1 Extend at every one of the 179 nodes; +2 Extends as in quick"}},
    "outside": ["more than two Extend calls", "detectors whose verdict differs between calls on the same input (excluded by C04)"],
    "assumptions": ["detectors are pure functions of (raw, limit) (C04)"],
}

SPECS["C14"] = {
    "explanation": "The real Extend (package level and method), Lookup and match on the real tree with symbolic detector verdicts: position of the "
                   "extension among its siblings, Lookup of name and aliases, unchanged classification when every extension rejects, priority over "
                   "older siblings, and immutability of earlier results, for every verdict vector (hence every input).",
    "units": [
        {"name": "extend", "pkg": "mimetype", "harnesses": ["HC14Extend"], "quick_args": fix(tier=0), "thorough_args": fix(tier=1), "quick_shards": 32, "thorough_shards": 64},
        {"name": "onresult", "pkg": "mimetype", "harnesses": ["HC14OnResult"], "quick_shards": 8, "thorough_shards": 8},
    ],
    "must_reach": ["assert:onresult:rejected-implies-unchanged", "assert:extension-is-a-new-node", "assert:lookup-before-extend", "end", "assert:lookup-alias-is-first-in-walk-order", "assert:lookup-agrees-with-walk-order", "assert:rejected-by-all-extensions-implies-unchanged", "assert:matching-extension-wins-over-older-siblings", "assert:earlier-result-unaffected"],
    "bounds": {"quick": {"extends": "1 or 2 Extend calls at {root (package level and method), text, zip, json, ole, html, docx, geojson, the first extension, the first extension's parent}; 0..2 aliases"},
               "thorough": {"extends": "as quick, plus 1 Extend at every one of the 179 nodes"}},
    "outside": ["more than two Extend calls", "extension detectors that are not pure"],
    "assumptions": ["sync.RWMutex is a no-op stub in the single-threaded executor (locking is C06)"],
}

SPECS["C05"] = {
    "explanation": "The real Detect / DetectReader / DetectFile / SetLimit with io.ReadFull, io.ReadAtLeast and io.ReadAll executed from source over a harness "
                   "reader whose chunk sizes, EOF-with-data behaviour and error injection point are nondeterministic; detectors are stubbed to record the "
                   "(header, limit) the tree walk receives, and the two headers are compared byte-wise by the solver.",
    "units": [
        {"name": "reader", "pkg": "mimetype", "harnesses": ["HC05Reader"], "quick_args": fix(maxlen=4), "thorough_args": fix(maxlen=6), "quick_shards": 32, "thorough_shards": 64},
        {"name": "file", "pkg": "mimetype", "harnesses": ["HC05File"], "quick_args": fix(maxlen=3), "thorough_args": fix(maxlen=5), "quick_shards": 16, "thorough_shards": 32},
        {"name": "sequence", "pkg": "mimetype", "harnesses": ["HC05Seq"], "quick_args": fix(maxlen=2), "thorough_args": fix(maxlen=3), "quick_shards": 32, "thorough_shards": 64},
        {"name": "big", "pkg": "mimetype", "harnesses": ["HC05Big"], "args": ["-max-instr", "20000000"], "quick_shards": 32, "thorough_shards": 64},
    ],
    "must_reach": ["assert:file-read-error-is-surfaced", "assert:big-same-header-bytes", "assert:big-reader-consumes-at-most-limit", "assert:second-detection-consumes-at-most-limit", "end", "assert:same-header-bytes", "assert:error-is-surfaced", "assert:reader-consumes-at-most-limit", "assert:open-error-yields-errMIME", "assert:file-closed"],
    "bounds": {"quick": {"data": "<= 4 bytes (symbolic), all chunk compositions, EOF with/without data, error at every offset with/without data, limits {0,1..6,3072}"},
               "thorough": {"data": "<= 6 bytes, limits {0,1..8,3072}"}},
    "outside": ["readers that violate the io.Reader contract", "real file-system behaviour (os.Open/Read/Close are contract stubs)", "limits outside the enumerated set"],
    "assumptions": ["equal (header, limit) implies equal result (C04)"],
    "stubs": ["os.Open", "(*os.File).Read", "(*os.File).Close"],
}

SPECS["C04"] = {
    "explanation": "Purity of detection as four obligations, each from an arbitrary or adversarial pre-state: (1) json.Parse from a fresh parser and from a parser that a real earlier Parse released - that earlier Parse itself starting "
                   "from an arbitrary pooled state with symbolic fields - gives identical results; (2) the CSV/TSV check with a fresh and with a dirtied pooled bufio.Reader "
                   "gives identical verdicts; (3) Detect hands the walk exactly the first limit bytes of the caller's slice (C05 harness, asserted there too); "
                   "(4) no detector, charset sniffer or entry point writes to the caller's buffer (write watch on the input cells in the C01 harnesses and in Detect).",
    "units": [
        {"name": "jsonpool", "pkg": "json", "harnesses": ["HC04Pool2"], "quick_args": fix(maxlen=4), "thorough_args": fix(maxlen=4), "quick_shards": 32, "thorough_shards": 64},
        {"name": "csvpool", "pkg": "magic", "harnesses": ["HC04CsvPool"], "quick_args": fix(maxlen=4), "thorough_args": fix(maxlen=6), "quick_shards": 32, "thorough_shards": 64},
        {"name": "watch", "pkg": "mimetype", "harnesses": ["HC04Watch"], "quick_args": fix(maxlen=2), "thorough_args": fix(maxlen=3), "quick_shards": 32, "thorough_shards": 64},
        {"name": "slicing", "pkg": "mimetype", "harnesses": ["HC05Reader"], "quick_args": fix(maxlen=3), "thorough_args": fix(maxlen=4), "quick_shards": 16, "thorough_shards": 32},
        {"name": "sequence", "pkg": "mimetype", "harnesses": ["HC05Seq"], "quick_args": fix(maxlen=2), "thorough_args": fix(maxlen=3), "quick_shards": 32, "thorough_shards": 64},
        {"name": "history", "pkg": "json", "harnesses": ["HC04History"], "quick_args": fix(maxlen=4), "thorough_args": fix(maxlen=5), "quick_shards": 32, "thorough_shards": 64},
        {"name": "reuse", "pkg": "mimetype", "harnesses": ["HC04Reuse"], "args": ["-max-instr", "20000000"], "quick_shards": 32, "thorough_shards": 64},
    ],
    "must_reach": ["assert:reused-buffer-same-answer-as-fresh-copy", "assert:history-same-query-verdict", "assert:second-detection-same-header-bytes", "end", "assert:same-parsed", "assert:same-query-satisfied", "assert:same-verdict-with-recycled-reader", "assert:caller-buffer-not-written", "assert:detect-slices-to-limit"],
    "bounds": {"quick": {"jsonpool": "two-step history: arbitrary pooled state (symbolic ib/firstToken/querySatisfied/failed, path stack height 0, 2 or 129 with symbolic keys) -> a real Parse of one of 4 first inputs -> Parse of raw <= 4 bytes, 4 query kinds, compared with a fresh parser",
                         "csvpool": "raw <= 4 bytes, both delimiters, 4 dirtying recipes with symbolic junk", "watch": "Detect on <= 2 symbolic bytes plus 2 symbolic bytes of spare capacity, limits {0,1,2,3072}"},
               "thorough": {"jsonpool": "<= 4 bytes", "csvpool": "<= 6 bytes", "watch": "<= 3 bytes"}},
    "outside": ["state inside stubbed functions (sync.Pool is modelled as: Get returns what was Put, else New)", "inputs longer than the bounds"],
    "assumptions": ["sync.Pool contract stub"],
    "stubs": ["(*sync.Pool).Get", "(*sync.Pool).Put"],
}

SPECS["C17"] = {
    "explanation": "Monotonicity in the read limit as one inductive step over the header length n, for each of the binary root formats executed from its real "
                   "code: accepted at n-1 bytes implies some binary root format accepts at n bytes (arbitrary uint32 limits on both sides). The disjunction "
                   "over the other formats is evaluated only on paths where the format itself lets go (ttf -> mdb/accdb).",
    "units": [
        {"name": "step", "pkg": "mimetype", "harnesses": ["HC17Step"], "quick_args": fix(tier=0) + ["-frontier-mult", "2"], "thorough_args": fix(tier=1) + ["-frontier-mult", "2"], "fix_each": {"format": 97}, "heavy_values": {22: 16, 53: 8, 41: 3, 44: 3}, "quick_shards": 1, "thorough_shards": 4},
        {"name": "entry", "pkg": "mimetype", "harnesses": ["HC05Reader"], "quick_args": fix(maxlen=3), "thorough_args": fix(maxlen=4), "quick_shards": 16, "thorough_shards": 32},
        {"name": "big", "pkg": "mimetype", "harnesses": ["HC05Big"], "args": ["-max-instr", "20000000"], "quick_shards": 32, "thorough_shards": 64},
    ],
    "must_reach": ["assert:big-same-header-bytes", "end", "same-format-still-matches", "handover", "assert:longer-header-still-binary"],
    "bounds": {"quick": {"n": "1..64 and every length within a few bytes of each length guard up to 4194 (list in harness/mimetype/h_c01.go); OLE: reduced list"},
               "thorough": {"n": "every n in 1..4300 (OLE formats: reduced list)"}},
    "outside": ["headers longer than 4300 bytes", "sub-formats below the root children (they only refine a binary parent)", "extensions"],
    "assumptions": ["tree walk semantics (C03)", "the limit passed to detectors is arbitrary (superset of what Detect passes)"],
}

SPECS["C18"] = {
    "explanation": "The real magic.Tar / tarParseOctal / tarChksum on a fully symbolic 512-byte block: under the (linear) assumption that the checksum field spells the "
                   "unsigned sum in one of the writer spellings, the detector accepts; after substituting any other value at a position outside the field it rejects. "
                   "The obligations contain 512-term sums; they are emitted over Int (interval analysis proves no wrap) because bit-vector back ends do not terminate on them.",
    "units": [
        {"name": "valid", "pkg": "magic", "harnesses": ["HC18Valid"], "args": ["-frontier-mult", "1"], "quick_shards": 8, "thorough_shards": 16},
        {"name": "writer", "pkg": "magic", "harnesses": ["HC18Writer"], "quick_shards": 16, "thorough_shards": 16},
        {"name": "corrupt", "pkg": "magic", "harnesses": ["HC18Corrupt"], "args": ["-frontier-mult", "1"], "quick_args": fix(tier=0) + ["-solver-timeout-ms", "120000"], "thorough_args": fix(tier=1) + ["-solver-timeout-ms", "300000"], "quick_shards": 16, "thorough_shards": 16},
    ],
    "must_reach": ["end", "assert:writer-header-accepted", "assert:writer-style-header-accepted", "assert:corrupted-header-rejected"],
    "bounds": {"quick": {"valid": "all 256^504 block contents x 4 checksum spellings x 0..8 trailing bytes", "writer": "numeric fields pinned to writer spellings (octal with NUL / space, all NUL, GNU base-256 positive and negative), one field at a time deviating from plain octal; every other byte symbolic; 4 checksum spellings", "corrupt": "spelling 0: 45 positions (every 16th and all field boundaries); other spellings: positions 0,147,156,511; all 255 other values"},
               "thorough": {"corrupt": "spelling 0: all 504 positions outside the checksum field; other spellings: 67 positions"}},
    "outside": ["checksum spellings other than the four listed", "headers whose name contains the Gentoo gpkg marker (excluded by the detector by design)", "tree position of tar (C03: after exe/elf/ar)"],
    "assumptions": ["writer conformance = the checksum field spells the unsigned byte sum with the field taken as spaces"],
}

SPECS["C13"] = {
    "explanation": "magic.Csv/Tsv through the real encoding/csv + bufio (executed, not stubbed), magic.NdJSON through the real scanner, and dropLastLine: "
                   "rectangular tables and value-per-line streams with symbolic cell/scalar bytes stay detected at every cut after the second line; conversely a "
                   "positive verdict on arbitrary bytes over a stated alphabet implies the line structure the property demands (reference line splitter in the harness).",
    "units": [
        {"name": "table", "pkg": "magic", "harnesses": ["HC13Table"], "quick_shards": 32, "thorough_shards": 64, "quick_args": ["-max-instr", "20000000"], "thorough_args": ["-max-instr", "20000000"]},
        {"name": "svconv", "pkg": "magic", "harnesses": ["HC13SvConverse"], "quick_args": fix(maxlen=7, alpha=0), "thorough_args": fix(maxlen=8, alpha=0), "quick_shards": 32, "thorough_shards": 64},
        {"name": "svconv4", "pkg": "magic", "harnesses": ["HC13SvConverse"], "quick_args": fix(maxlen=9, alpha=1), "thorough_args": fix(maxlen=9, alpha=1), "quick_shards": 48, "thorough_shards": 64},
        {"name": "ndconv", "pkg": "magic", "harnesses": ["HC13NdConverse"], "quick_args": fix(maxlen=6), "thorough_args": fix(maxlen=7), "quick_shards": 32, "thorough_shards": 64},
        {"name": "ndstream", "pkg": "magic", "harnesses": ["HC13NdStream"], "quick_shards": 32, "thorough_shards": 64},
        {"name": "entry", "pkg": "mimetype", "harnesses": ["HC05Reader"], "quick_args": fix(maxlen=3), "thorough_args": fix(maxlen=4), "quick_shards": 16, "thorough_shards": 32},
        {"name": "ragged", "pkg": "magic", "harnesses": ["HC13Ragged"], "quick_shards": 32, "thorough_shards": 64},
        {"name": "sequence", "pkg": "mimetype", "harnesses": ["HC05Seq"], "quick_args": fix(maxlen=2), "thorough_args": fix(maxlen=3), "quick_shards": 32, "thorough_shards": 64},
    ],
    "must_reach": ["assert:second-detection-same-header-length", "assert:ragged-table-rejected-at-cut", "assert:ragged-table-rejected-file-ends-at-limit", "assert:detect-slices-to-limit", "end", "assert:table-survives-cut", "assert:every-line-has-the-same-field-count", "assert:complete-line-is-a-json-value", "assert:stream-survives-cut"],
    "bounds": {"quick": {"table": "2..3 rows x 2..3 columns, cells of 1..2 symbolic bytes or alternating empty / 1-byte cells, LF/CRLF per line, with/without final newline, every limit from end of line 2 to len+1",
                         "svconv": "<= 7 bytes over {, TAB LF CR # a 1 space}; <= 9 bytes over {delimiter LF a space}", "ndconv": "<= 6 bytes over {[ ] { } \" : , 1 a space LF CR}", "ndstream": "2..3 lines from 6 value templates with symbolic digits"},
               "thorough": {"svconv": "<= 8 bytes; <= 9 bytes over the 4-letter alphabet", "ndconv": "<= 7 bytes"}},
    "outside": ["quoted fields (LazyQuotes semantics are not re-specified)", "cells longer than 2 bytes", "inputs outside the stated alphabets for the converse"],
    "assumptions": [],
}

SPECS["C19"] = {
    "explanation": "The real zipContains / Xlsx / Docx / Pptx / Jar / APK / ODF offset checks on archives laid out by a harness-side zip writer (APPNOTE layout as "
                   "archive/zip produces it), with symbolic name and body bytes; the oracle is the entry list that was written.",
    "units": [
        {"name": "zip", "pkg": "magic", "harnesses": ["HC19"], "quick_args": fix(tier=0), "thorough_args": fix(tier=1), "quick_shards": 32, "thorough_shards": 64},
        {"name": "reuse", "pkg": "mimetype", "harnesses": ["HC04Reuse"], "args": ["-max-instr", "20000000"], "quick_shards": 32, "thorough_shards": 64},
    ],
    "must_reach": ["assert:reused-buffer-same-answer-as-fresh-copy", "end", "assert:docx-identified", "assert:xlsx-identified", "assert:pptx-identified", "assert:jar-identified", "assert:odt-identified", "assert:xlsx-implies-marker"],
    "bounds": {"quick": {"archives": "first entry from 7 names (with/without data descriptor), OOXML marker as 2nd..6th entry or absent, 0..4 fillers of one of 4 kinds (tiny stored, deflated+descriptor, bookkeeping part, near-miss 'xl'+'/...'), optional trailer; symbolic name/body bytes from a..o; limit 0"},
               "thorough": {"archives": "as quick with an independent filler kind per position"}},
    "outside": ["bodies or names containing a zip signature", "extra fields", "zip64", "archives with more than 7 entries", "APK markers"],
    "assumptions": ["no PK\\x03\\x04 outside real local headers (symbolic bytes are restricted to a..o)"],
}

SPECS["C12"] = {
    "explanation": "charset.FromHTML through the real x/net/html tokenizer and charset.FromXML through the real encoding/xml RawToken (both executed from source, "
                   "not stubbed) on declaration templates with a symbolic label over the token alphabet [A-Za-z0-9._+-], symbolic whitespace, three letter-case "
                   "variants of tag/attribute names, five declaration syntaxes and nine prologues (among them a 1100-byte comment and earlier non-declaring meta tags); the result must equal the lower-cased label "
                   "(utf-16 labels map to utf-8, a BOM wins). The markup detectors are checked on the same kind of headers.",
    "units": [
        {"name": "html", "pkg": "magic", "harnesses": ["HC12HTML"], "quick_args": fix(labelLen=3), "thorough_args": fix(labelLen=7), "quick_shards": 48, "thorough_shards": 64},
        {"name": "htmlk1", "pkg": "magic", "harnesses": ["HC12HTML"], "quick_args": fix(labelLen=0), "thorough_args": fix(labelLen=0), "quick_shards": 16, "thorough_shards": 16},
        {"name": "utf16", "pkg": "magic", "harnesses": ["HC12UTF16"], "quick_shards": 4, "thorough_shards": 4},
        {"name": "xml", "pkg": "magic", "harnesses": ["HC12XML"], "quick_args": fix(labelLen=3), "thorough_args": fix(labelLen=7), "quick_shards": 32, "thorough_shards": 64},
        {"name": "markup", "pkg": "magic", "harnesses": ["HC12Markup"], "quick_shards": 16, "thorough_shards": 16},
        {"name": "xmlutf8", "pkg": "magic", "harnesses": ["HC12XMLUTF8"], "quick_shards": 4, "thorough_shards": 4},
    ],
    "must_reach": ["assert:xml-declared-utf8-honoured", "end", "assert:html-declared-charset-honoured", "assert:bom-wins-over-meta", "assert:utf16-meta-maps-to-utf8", "assert:xml-declared-encoding-honoured", "assert:html-markup-detected"],
    "bounds": {"quick": {"label": "1 and 4 symbolic bytes (66^k labels)", "templates": "5 syntaxes x 9 prologues x 3 case variants x symbolic whitespace"},
               "thorough": {"label": "1 and 8 symbolic bytes"}},
    "outside": ["labels longer than the bound or with characters outside [A-Za-z0-9._+-]", "labels that start with utf-16 other than the five listed (they are the property's utf-16 labels, which map to utf-8)", "more than one declaration", "declarations beyond the header"],
    "assumptions": [],
}

SPECS["C02"] = {
    "explanation": "Structure of results on the real tree for every verdict vector (C03 harness: parameters only on the three text types, bare ancestors, chain rooted at "
                   "application/octet-stream, errMIME on errors via C05), and the format->parse round trip: an HTML/XML declaration or plain header carrying k arbitrary bytes "
                   "(full alphabet) goes through the real FromHTML/FromXML/FromPlain, the real match/clone with mime.FormatMediaType and back through mime.ParseMediaType, all executed symbolically.",
    "units": [
        {"name": "format", "pkg": "mimetype", "harnesses": ["HC02Format"], "quick_args": fix(labelLen=1), "thorough_args": fix(labelLen=2), "quick_shards": 48, "thorough_shards": 64},
        {"name": "format0", "pkg": "mimetype", "harnesses": ["HC02Format"], "quick_args": fix(labelLen=0), "thorough_args": fix(labelLen=0), "quick_shards": 4, "thorough_shards": 4},
        {"name": "registered", "pkg": "mimetype", "harnesses": ["HC02Registered"], "quick_shards": 1, "thorough_shards": 1},
        {"name": "walk", "pkg": "mimetype", "harnesses": ["HC03Walk"], "quick_args": fix(tier=0, extends=0), "thorough_args": fix(tier=0, extends=0), "quick_shards": 16, "thorough_shards": 16},
        {"name": "errors", "pkg": "mimetype", "harnesses": ["HC05Reader", "HC05File"], "quick_args": fix(maxlen=2), "thorough_args": fix(maxlen=3), "quick_shards": 16, "thorough_shards": 32},
        {"name": "onresult", "pkg": "mimetype", "harnesses": ["HC14OnResult"], "quick_shards": 8, "thorough_shards": 8},
        {"name": "data", "pkg": "mimetype", "harnesses": ["HC01Data"], "args": ["-max-instr", "30000000"], "quick_args": fix(dataTier=0, dataC02=1), "thorough_args": fix(dataTier=1, dataC02=1), "quick_shards": 48, "thorough_shards": 64},
    ],
    "must_reach": ["assert:data:string-parses", "assert:data:only-charset-parameter", "assert:data:rooted", "assert:onresult:ancestors-carry-no-parameters", "assert:walk:ancestor-bare", "assert:error-yields-errMIME", "assert:errMIME-is-bare-root", "end", "assert:format:string-parses", "assert:format:registered-type", "assert:format:only-charset-parameter", "assert:registered-type-is-bare-media-type", "assert:parameter-only-on-text-types", "assert:chain-ends-at-octet-stream"],
    "bounds": {"quick": {"label": "0 and 1 arbitrary bytes in 5 carriers", "data": "results of Detect on the repository's 215 test headers with symbolic perturbations (HC01Data)"}, "thorough": {"label": "0 and 2 arbitrary bytes"}},
    "outside": ["labels longer than the bound", "carriers other than the five templates"],
    "assumptions": [],
}

SPECS["C15"] = {
    "explanation": "The real (*MIME).Is, EqualsAny and Lookup with mime.ParseMediaType executed symbolically: every registered type and alias in decorated spellings "
                   "(3 case variants, 0..2 symbolic whitespace bytes on each side, optional plain or quoted parameter with symbolic token bytes), and one-byte substitutions.",
    "units": [
        {"name": "decorated", "pkg": "mimetype", "harnesses": ["HC15Decorated"], "quick_shards": 32, "thorough_shards": 32},
        {"name": "substituted", "pkg": "mimetype", "harnesses": ["HC15Substituted"], "quick_shards": 48, "thorough_shards": 64},
        {"name": "results", "pkg": "mimetype", "harnesses": ["HC02Format"], "quick_args": fix(labelLen=1), "thorough_args": fix(labelLen=1), "quick_shards": 32, "thorough_shards": 32},
        {"name": "extended", "pkg": "mimetype", "harnesses": ["HC14Extend"], "quick_args": fix(tier=0, input=0), "thorough_args": fix(tier=0, input=0), "quick_shards": 32, "thorough_shards": 32},
    ],
    "must_reach": ["assert:lookup-alias-is-first-in-walk-order", "assert:lookup-before-extend", "end", "assert:is-ignores-decoration", "assert:equalsany-ignores-decoration", "assert:is-only-for-type-or-alias", "assert:format:is-own-string", "assert:format:lookup-bare-type-is-result"],
    "bounds": {"quick": {"names": "all 258 registered names x 8 decoration shapes; one-byte substitution at every position of every name"}, "thorough": {"names": "as quick"}},
    "outside": ["parameter lists longer than one parameter", "whitespace runs longer than two bytes", "substituted bytes outside token characters and '/'"],
    "assumptions": [],
}

SPECS["C06"] = {
    "explanation": "Data-race freedom is decided as a schedule-independent lock discipline on the real code: for every ordered pair of public operations, run as two logical "
                   "threads by the single-threaded executor, every access to a cell not owned by the running thread is logged with the lock set (sync.RWMutex bookkeeping), "
                   "atomicity and ownership (objects between sync.Pool Get and Put); two accesses of different threads to one cell, one a write, must be both atomic or share a "
                   "lock that one side holds exclusively. Interleavings are not enumerated; a violation is replayed natively under the Go race detector.",
    "units": [
        {"name": "pairs", "pkg": "mimetype", "harnesses": ["HC06Pairs"], "args": ["-c06"], "quick_shards": 48, "thorough_shards": 64},
        {"name": "limitflip", "pkg": "mimetype", "harnesses": ["HC06LimitFlip"], "quick_shards": 16, "thorough_shards": 16},
        {"name": "interleave", "pkg": "mimetype", "harnesses": ["HC06Interleave"], "args": ["-max-instr", "20000000"], "quick_shards": 16, "thorough_shards": 16},
    ],
    "must_reach": ["end", "assert:result-is-sequential-for-old-or-new-limit", "assert:no-lost-registration", "assert:registration-visible-to-lookup-after-concurrent-lookup",
                   "assert:detection-is-sequential-for-old-or-new-limit", "assert:detection-sees-old-or-new-tree", "assert:concurrent-detections-are-sequential"],
    "bounds": {"quick": {"pairs": "all 100 ordered pairs of 10 operations x 5 concrete inputs x alias slice len 0..2, spare capacity 0..1; one prior Extend; rules: (R) lockset race freedom, (A) no read-modify-write of a shared cell across two critical sections",
                         "limitflip": "4 inputs x 36 (old,new) limit pairs, limit changed from inside the first Read"}},
    "outside": ["more than two concurrent operations interacting (argued pairwise)", "the Go memory model below the data-race-free guarantee", "internals of sync (stubbed)",
                "linearizability of each result w.r.t. a single instant (only per-resource: one atomic load of the limit, one RLock section for the tree)"],
    "assumptions": ["sync.Pool gives exclusive ownership between Get and Put", "sync.RWMutex semantics"],
    "stubs": ["(*sync.RWMutex).Lock/Unlock/RLock/RUnlock (bookkeeping only)", "(*sync.Pool).Get/Put"],
}
