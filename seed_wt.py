#!/usr/bin/env python3
"""Runs checks against seeded changes in scratch worktrees of /repo (never in /repo itself).

usage: seed_wt.py [--tier quick] [--jobs N] [--props C05,C07] <seeded-id>...      (default: all seeded/*/patch.diff)
For each seeded change: git worktree add /tmp/sw_<id>; git apply patch; VERIF_REPO=<wt> ./check <prop>; remove worktree.
Evidence and replays of these runs go to /tmp/sw_<id>_out (never to /verif/evidence). Result: seeded/<id>/result.json
"""
import os, sys, subprocess, json, shutil, time, concurrent.futures as cf
V = os.path.dirname(os.path.abspath(__file__))
def sh(cmd, **kw):
    return subprocess.run(cmd, stdout=subprocess.PIPE, stderr=subprocess.STDOUT, text=True, **kw)
def one(sid, tier, jobs, props, units=None):
    d = os.path.join(V, "seeded", sid)
    wt = "/tmp/sw_" + sid; out = wt + "_out"
    sh(["git", "-C", "/repo", "worktree", "remove", "--force", wt]); shutil.rmtree(wt, ignore_errors=True); shutil.rmtree(out, ignore_errors=True)
    r = sh(["git", "-C", "/repo", "worktree", "add", "-q", "--detach", wt, "HEAD"]); assert r.returncode == 0, r.stdout
    res = {"seeded": sid, "tier": tier, "checks": {}}
    try:
        r = sh(["git", "apply", os.path.join(d, "patch.diff")], cwd=wt)
        if r.returncode != 0:
            res["error"] = "patch does not apply: " + r.stdout[-300:]; return res
        os.makedirs(out)
        for p in props or [sid.split("_")[0]]:
            env = dict(os.environ, VERIF_REPO=wt, VERIF_EVIDENCE_DIR=out, VERIF_REPLAY_DIR=os.path.join(out, "replays"), VERIF_JOBS=str(jobs))
            if units: env["VERIF_UNITS"] = units
            t = time.time()
            r = sh([os.path.join(V, "check"), p, "--tier", tier], cwd=V, env=env)
            lines = r.stdout.splitlines()
            res["checks"][p] = {"exit": r.returncode, "wall_s": round(time.time() - t),
                "violations": [l for l in lines if l.startswith("VIOLATION")][:4],
                "detail": [l[:400] for l in lines if l.startswith("  harness=")][:4],
                "other": [l[:400] for l in lines if l.startswith(("ENGINE", "INCONCLUSIVE", "VACUOUS", "FAULT"))][:4],
                "summary": lines[-1] if lines else ""}
            open(os.path.join(d, "check_output_%s_%s.txt" % (p, tier)), "w").write(r.stdout[-20000:])
    finally:
        sh(["git", "-C", "/repo", "worktree", "remove", "--force", wt]); shutil.rmtree(wt, ignore_errors=True); shutil.rmtree(out, ignore_errors=True)
    own = res["checks"].get(sid.split("_")[0])
    res["caught"] = bool(own and own["exit"] == 1 and own["violations"])
    return res
def main():
    a = sys.argv[1:]; tier = "quick"; jobs = 16; par = 1; props = None; units = None
    while a and a[0].startswith("--"):
        if a[0] == "--tier": tier = a[1]
        elif a[0] == "--jobs": jobs = int(a[1])
        elif a[0] == "--par": par = int(a[1])
        elif a[0] == "--props": props = a[1].split(",")
        elif a[0] == "--units": units = a[1]
        a = a[2:]
    ids = a or sorted(x for x in os.listdir(os.path.join(V, "seeded")) if os.path.exists(os.path.join(V, "seeded", x, "patch.diff")))
    with cf.ThreadPoolExecutor(max_workers=par) as ex:
        for res in ex.map(lambda s: one(s, tier, jobs, props, units), ids):
            sid = res["seeded"]
            if not props and not units:
                json.dump(res, open(os.path.join(V, "seeded", sid, "result.json"), "w"), indent=1)
            print(sid, "CAUGHT" if res.get("caught") else "MISSED", {p: (c["exit"], c["wall_s"]) for p, c in res["checks"].items()}, res.get("error", ""), flush=True)
            for p, c in res["checks"].items():
                for l in (c["detail"] or c["other"])[:1]: print("    ", l[:200], flush=True)
main()
