// Command symgo symbolically executes an in-package harness function of a Go
// package (loaded from source, with overlay files) and reports findings as JSON.
package main

import (
	"encoding/json"
	"flag"
	"fmt"
	"os"
	"strings"
	"time"

	"verif/engine/symgo"
)

type multi []string

func (m *multi) String() string     { return strings.Join(*m, ",") }
func (m *multi) Set(s string) error { *m = append(*m, s); return nil }

func main() {
	var overlays multi
	var harnesses multi
	dir := flag.String("dir", "/repo", "module directory")
	pkgPat := flag.String("pkg", ".", "package pattern containing the harness")
	flag.Var(&overlays, "overlay", "virtual=real overlay mapping (repeatable)")
	flag.Var(&harnesses, "harness", "harness function name (repeatable)")
	var fixes multi
	flag.Var(&fixes, "fix", "name=value: fix the outcome of vChoice(name) (repeatable)")
	tags := flag.String("tags", "verif", "build tags")
	maxInstr := flag.Int64("max-instr", 2_000_000, "instruction budget per path")
	maxDec := flag.Int("max-decisions", 20000, "decision budget per path")
	maxPaths := flag.Int64("max-paths", 0, "stop after this many paths (0 = unlimited)")
	maxFind := flag.Int("max-findings", 6, "stop after this many findings")
	noCoalesce := flag.Bool("no-coalesce", false, "disable decision-DAG coalescing")
	cross := flag.Int("cross-every", 0, "cross-check every n-th bitset verdict with z3")
	shard := flag.Int("shard", 0, "shard index")
	of := flag.Int("of", 1, "number of shards")
	solver := flag.String("solver", "z3", "z3 | z3-new | cvc5")
	timeout := flag.Int("solver-timeout-ms", 60000, "per-query solver timeout")
	logDir := flag.String("smt-log", "", "directory for sample SMT-LIB scripts")
	out := flag.String("out", "", "write JSON results here (default stdout)")
	sitePkgs := flag.String("site-pkgs", "gabriel-vasile/mimetype", "record branch sites in packages containing this substring")
	budgetS := flag.Int("time-budget-s", 0, "wall-clock budget per harness")
	verbose := flag.Bool("v", false, "verbose")
	frontier := flag.Int("frontier-mult", 8, "breadth-first expansion stops at this many open prefixes per shard")
	c06 := flag.Bool("c06", false, "enable access log / lock discipline check")
	flag.Parse()

	ov := map[string][]byte{}
	for _, o := range overlays {
		kv := strings.SplitN(o, "=", 2)
		if len(kv) != 2 {
			fmt.Fprintln(os.Stderr, "bad -overlay", o)
			os.Exit(2)
		}
		b, err := os.ReadFile(kv[1])
		if err != nil {
			fmt.Fprintln(os.Stderr, err)
			os.Exit(2)
		}
		ov[kv[0]] = b
	}
	prog, err := symgo.Load(*dir, []string{*pkgPat}, ov, *tags)
	if err != nil {
		fmt.Fprintln(os.Stderr, "load:", err)
		os.Exit(2)
	}
	var mainPkg = prog.MainPackage(*pkgPat)
	if mainPkg == nil {
		fmt.Fprintln(os.Stderr, "cannot find harness package")
		os.Exit(2)
	}
	if err := prog.Init(mainPkg); err != nil {
		fmt.Fprintln(os.Stderr, err)
		os.Exit(2)
	}
	fixed := map[string]int{}
	for _, f := range fixes {
		kv := strings.SplitN(f, "=", 2)
		var v int
		fmt.Sscan(kv[1], &v)
		fixed[kv[0]] = v
	}
	var results []*symgo.Result
	for _, h := range harnesses {
		opt := symgo.Options{
			Harness:     h,
			Limits:      symgo.Limits{MaxInstr: *maxInstr, MaxDecisions: *maxDec},
			Coalesce:    !*noCoalesce,
			Summarise:   !*noCoalesce,
			CrossEvery:  *cross,
			Shard:       *shard,
			Of:          *of,
			MaxPaths:    *maxPaths,
			MaxFindings: *maxFind,
			SolverName:  *solver,
			TimeoutMs:   *timeout,
			LogDir:      *logDir,
			Verbose:     *verbose,
			C06:         *c06,
			Fixed:       fixed,
			FrontierMult: *frontier,
		}
		if *sitePkgs != "" {
			opt.SitePkgs = []string{*sitePkgs}
		}
		if *budgetS > 0 {
			opt.Deadline = time.Now().Add(time.Duration(*budgetS) * time.Second)
		}
		results = append(results, prog.Explore(mainPkg, opt))
	}
	doc := map[string]interface{}{
		"load_s":  prog.LoadDur.Seconds(),
		"init_s":  prog.InitDur.Seconds(),
		"results": results,
	}
	enc, _ := json.MarshalIndent(doc, "", " ")
	if *out != "" {
		os.WriteFile(*out, enc, 0o644)
	} else {
		os.Stdout.Write(enc)
		fmt.Println()
	}
}
