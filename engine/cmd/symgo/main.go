// Command symgo symbolically executes an in-package harness function of a Go
// package (loaded from source, with overlay files) and reports findings as JSON.
package main

import (
	"bufio"
	"encoding/json"
	"flag"
	"fmt"
	"io"
	"os"
	"os/exec"
	"strings"
	"time"

	"golang.org/x/tools/go/ssa"

	"verif/engine/symgo"
)

type multi []string

func (m *multi) String() string     { return strings.Join(*m, ",") }
func (m *multi) Set(s string) error { *m = append(*m, s); return nil }

func main() {
	var overlays multi
	var harnesses multi
	dir := flag.String("dir", "/repo", "module directory")
	pkgPat := flag.String("pkg", ".", "package pattern containing the harness")
	flag.Var(&overlays, "overlay", "virtual=real overlay mapping (repeatable)")
	flag.Var(&harnesses, "harness", "harness function name (repeatable)")
	var knownLabels multi
	flag.Var(&knownLabels, "known-label", "assertion label of a recorded finding: reported but does not stop the exploration (repeatable)")
	var fixes multi
	flag.Var(&fixes, "fix", "name=value: fix the outcome of vChoice(name) (repeatable)")
	tags := flag.String("tags", "verif", "build tags")
	maxInstr := flag.Int64("max-instr", 2_000_000, "instruction budget per path")
	maxDec := flag.Int("max-decisions", 20000, "decision budget per path")
	maxPaths := flag.Int64("max-paths", 0, "stop after this many paths (0 = unlimited)")
	maxFind := flag.Int("max-findings", 6, "stop after this many findings")
	noCoalesce := flag.Bool("no-coalesce", false, "disable decision-DAG coalescing")
	cross := flag.Int("cross-every", 0, "cross-check every n-th bitset verdict with z3")
	shard := flag.Int("shard", 0, "shard index")
	of := flag.Int("of", 1, "number of shards")
	solver := flag.String("solver", "z3", "z3 | z3-new | cvc5")
	timeout := flag.Int("solver-timeout-ms", 60000, "per-query solver timeout")
	logDir := flag.String("smt-log", "", "directory for sample SMT-LIB scripts")
	out := flag.String("out", "", "write JSON results here (default stdout)")
	sitePkgs := flag.String("site-pkgs", "gabriel-vasile/mimetype", "record branch sites in packages containing this substring")
	budgetS := flag.Int("time-budget-s", 0, "wall-clock budget per harness")
	verbose := flag.Bool("v", false, "verbose")
	frontier := flag.Int("frontier-mult", 8, "breadth-first expansion stops at this many open prefixes per shard")
	c06 := flag.Bool("c06", false, "enable access log / lock discipline check")
	workers := flag.Int("workers", 0, "explore with this many worker processes and dynamic work distribution (0/1: in-process)")
	workerMode := flag.Bool("worker-mode", false, "internal: serve exploration batches on stdin/stdout")
	flag.Parse()
	if *workers > 1 && !*workerMode {
		os.Exit(coordinate(*workers, harnesses, *maxFind, *budgetS, *out, *verbose))
	}

	ov := map[string][]byte{}
	for _, o := range overlays {
		kv := strings.SplitN(o, "=", 2)
		if len(kv) != 2 {
			fmt.Fprintln(os.Stderr, "bad -overlay", o)
			os.Exit(2)
		}
		b, err := os.ReadFile(kv[1])
		if err != nil {
			fmt.Fprintln(os.Stderr, err)
			os.Exit(2)
		}
		ov[kv[0]] = b
	}
	prog, err := symgo.Load(*dir, []string{*pkgPat}, ov, *tags)
	if err != nil {
		fmt.Fprintln(os.Stderr, "load:", err)
		os.Exit(2)
	}
	var mainPkg = prog.MainPackage(*pkgPat)
	if mainPkg == nil {
		fmt.Fprintln(os.Stderr, "cannot find harness package")
		os.Exit(2)
	}
	if err := prog.Init(mainPkg); err != nil {
		fmt.Fprintln(os.Stderr, err)
		os.Exit(2)
	}
	fixed := map[string]int{}
	for _, f := range fixes {
		kv := strings.SplitN(f, "=", 2)
		var v int
		fmt.Sscan(kv[1], &v)
		fixed[kv[0]] = v
	}
	var results []*symgo.Result
	mkOpt := func(h string) symgo.Options {
		opt := symgo.Options{
			Harness:     h,
			Limits:      symgo.Limits{MaxInstr: *maxInstr, MaxDecisions: *maxDec},
			Coalesce:    !*noCoalesce,
			Summarise:   !*noCoalesce,
			CrossEvery:  *cross,
			Shard:       *shard,
			Of:          *of,
			MaxPaths:    *maxPaths,
			MaxFindings: *maxFind,
			SolverName:  *solver,
			TimeoutMs:   *timeout,
			LogDir:      *logDir,
			Verbose:     *verbose,
			C06:         *c06,
			Fixed:       fixed,
			KnownLabels: knownLabels,
			FrontierMult: *frontier,
		}
		if *sitePkgs != "" {
			opt.SitePkgs = []string{*sitePkgs}
		}
		if *budgetS > 0 && !*workerMode {
			opt.Deadline = time.Now().Add(time.Duration(*budgetS) * time.Second)
		}
		return opt
	}
	if *workerMode {
		serve(prog, mainPkg, mkOpt)
		return
	}
	for _, h := range harnesses {
		results = append(results, prog.Explore(mainPkg, mkOpt(h)))
	}
	doc := map[string]interface{}{
		"load_s":  prog.LoadDur.Seconds(),
		"init_s":  prog.InitDur.Seconds(),
		"results": results,
	}
	enc, _ := json.MarshalIndent(doc, "", " ")
	if *out != "" {
		os.WriteFile(*out, enc, 0o644)
	} else {
		os.Stdout.Write(enc)
		fmt.Println()
	}
}

// ---- multi-process exploration: one coordinator, n workers, work handed out in batches ----

type wreq struct {
	Op      string    `json:"op"` // start | run | finish
	Harness string    `json:"harness,omitempty"`
	Work    [][]int64 `json:"work,omitempty"`
	Budget  int64     `json:"budget,omitempty"`
	MaxMs   int64     `json:"max_ms,omitempty"`
}

type wresp struct {
	Ready    bool          `json:"ready,omitempty"`
	Err      string        `json:"err,omitempty"`
	Open     [][]int64     `json:"open,omitempty"`
	Findings int           `json:"findings,omitempty"`
	Result   *symgo.Result `json:"result,omitempty"`
	LoadS    float64       `json:"load_s,omitempty"`
	InitS    float64       `json:"init_s,omitempty"`
}

// serve is the worker side: the program is loaded; answer requests until stdin closes.
func serve(prog *symgo.Program, mainPkg *ssa.Package, mkOpt func(string) symgo.Options) {
	in := bufio.NewReaderSize(os.Stdin, 1<<20)
	out := json.NewEncoder(os.Stdout)
	out.Encode(wresp{Ready: true, LoadS: prog.LoadDur.Seconds(), InitS: prog.InitDur.Seconds()})
	var sess *symgo.Session
	for {
		line, err := in.ReadBytes('\n')
		if len(line) > 0 {
			var rq wreq
			if e := json.Unmarshal(line, &rq); e != nil {
				out.Encode(wresp{Err: "bad request: " + e.Error()})
				continue
			}
			switch rq.Op {
			case "start":
				sess = prog.NewSession(mainPkg, mkOpt(rq.Harness))
				out.Encode(wresp{Ready: true})
			case "run":
				var open [][]int64
				if sess.Failed() {
					open = nil
				} else {
					open = sess.RunBatch(rq.Work, rq.Budget, time.Duration(rq.MaxMs)*time.Millisecond)
				}
				out.Encode(wresp{Open: open, Findings: sess.FindingsCount()})
			case "finish":
				out.Encode(wresp{Result: sess.Finish(0)})
				sess = nil
			}
		}
		if err != nil {
			return
		}
	}
}

type wproc struct {
	cmd  *exec.Cmd
	in   io.WriteCloser
	out  *bufio.Reader
	busy   bool
	dead   bool
	killed bool
}

func (w *wproc) send(rq wreq) error {
	b, _ := json.Marshal(rq)
	_, err := w.in.Write(append(b, '\n'))
	return err
}

func (w *wproc) recv() (wresp, error) {
	var rs wresp
	line, err := w.out.ReadBytes('\n')
	if err != nil && len(line) == 0 {
		return rs, err
	}
	if e := json.Unmarshal(line, &rs); e != nil {
		return rs, fmt.Errorf("bad worker reply: %v: %.200s", e, line)
	}
	return rs, nil
}

func coordinate(n int, harnesses []string, maxFind int, budgetS int, outPath string, verbose bool) int {
	args := append([]string{}, os.Args[1:]...)
	args = append(args, "-worker-mode")
	ws := make([]*wproc, n)
	var loadS, initS float64
	for i := range ws {
		cmd := exec.Command(os.Args[0], args...)
		cmd.Stderr = os.Stderr
		in, _ := cmd.StdinPipe()
		op, _ := cmd.StdoutPipe()
		if err := cmd.Start(); err != nil {
			fmt.Fprintln(os.Stderr, "cannot start worker:", err)
			return 2
		}
		ws[i] = &wproc{cmd: cmd, in: in, out: bufio.NewReaderSize(op, 1<<20)}
	}
	for _, w := range ws {
		rs, err := w.recv()
		if err != nil || !rs.Ready {
			fmt.Fprintln(os.Stderr, "worker failed to load:", err, rs.Err)
			return 2
		}
		loadS, initS = rs.LoadS, rs.InitS
	}
	type reply struct {
		w   *wproc
		rs  wresp
		err error
	}
	var results []*symgo.Result
	for _, h := range harnesses {
		start := time.Now()
		var deadline time.Time
		if budgetS > 0 {
			deadline = start.Add(time.Duration(budgetS) * time.Second)
		}
		for _, w := range ws {
			w.send(wreq{Op: "start", Harness: h})
		}
		for _, w := range ws {
			w.recv()
		}
		queue := [][]int64{nil}
		replies := make(chan reply, n)
		busy := 0
		findings := map[*wproc]int{}
		total := 0
		complete, reason := true, ""
		workerErr := ""
		for {
			stop := !complete
			if !stop && total >= maxFind {
				complete, reason, stop = false, "stopped after findings", true
			}
			if !stop && !deadline.IsZero() && time.Now().After(deadline) {
				complete, reason, stop = false, "time budget exhausted", true
			}
			if !stop {
				for _, w := range ws {
					if len(queue) == 0 {
						break
					}
					if w.busy || w.dead {
						continue
					}
					// hand out the shallowest prefixes (largest subtrees); small batches while the queue is short
					k := len(queue) / (2 * n)
					if k < 1 {
						k = 1
					}
					if k > 64 {
						k = 64
					}
					// a batch ends after `budget` paths or maxMs of work, whichever comes first; what is left of
					// its subtree comes back to the queue, so slow paths do not pile up behind one worker
					budget, maxMs := int64(8), int64(500)
					if len(queue) > 4*n {
						budget, maxMs = 512, 3000
					} else if len(queue) > n {
						budget, maxMs = 32, 1500
					}
					batch := append([][]int64{}, queue[:k]...)
					queue = queue[k:]
					w.busy = true
					busy++
					w.send(wreq{Op: "run", Work: batch, Budget: budget, MaxMs: maxMs})
					go func(w *wproc) {
						rs, err := w.recv()
						replies <- reply{w, rs, err}
					}(w)
				}
			}
			if busy == 0 {
				break
			}
			var r reply
			if deadline.IsZero() {
				r = <-replies
			} else {
				// past the deadline, workers get a minute to finish the path they are on; then they are stopped
				wait := time.Until(deadline.Add(60 * time.Second))
				if wait < time.Second {
					wait = time.Second
				}
				select {
				case r = <-replies:
				case <-time.After(wait):
					if time.Now().After(deadline.Add(60 * time.Second)) {
						for _, w := range ws {
							if w.busy && !w.dead {
								w.killed = true
								w.cmd.Process.Kill()
							}
						}
					}
					continue
				}
			}
			busy--
			r.w.busy = false
			if r.err != nil {
				r.w.dead = true
				if r.w.killed {
					complete, reason = false, "time budget exhausted (workers stopped on a long path)"
					continue
				}
				workerErr = "worker died: " + r.err.Error()
				complete, reason = false, workerErr
				continue
			}
			queue = append(queue, r.rs.Open...)
			total += r.rs.Findings - findings[r.w]
			findings[r.w] = r.rs.Findings
		}
		var parts []*symgo.Result
		for _, w := range ws {
			if w.dead {
				continue
			}
			w.send(wreq{Op: "finish"})
			rs, err := w.recv()
			if err == nil && rs.Result != nil {
				parts = append(parts, rs.Result)
			}
		}
		res := symgo.MergeResults(h, parts, len(queue), complete, reason, maxFind, time.Since(start).Seconds())
		if workerErr != "" {
			res.Status, res.Reason = "fault", workerErr
		}
		results = append(results, res)
		if verbose {
			fmt.Fprintf(os.Stderr, "%s: %s paths=%d wall=%.1fs\n", h, res.Status, res.Stats.Paths, res.WallS)
		}
	}
	for _, w := range ws {
		w.in.Close()
		w.cmd.Wait()
	}
	doc := map[string]interface{}{"load_s": loadS, "init_s": initS, "results": results, "workers": n}
	enc, _ := json.MarshalIndent(doc, "", " ")
	if outPath != "" {
		os.WriteFile(outPath, enc, 0o644)
	} else {
		os.Stdout.Write(enc)
		fmt.Println()
	}
	return 0
}
