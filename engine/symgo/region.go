package symgo

// Decision-DAG coalescing: at a symbolic If, the acyclic region of side-effect-free
// blocks reachable from it is evaluated symbolically and collapsed into one k-way
// fork over its exit blocks; pure acyclic leaf functions are summarised into one term.

import (
	"go/token"
	"go/types"

	"golang.org/x/tools/go/ssa"
)

type fnInfo struct {
	ext       externalFn
	calls     int64
	pure      bool
	pureKnown bool
	blockPure []bool
}

func (i *interpreter) fnInfo(fn *ssa.Function) *fnInfo {
	if fi, ok := i.fninfo[fn]; ok {
		return fi
	}
	fi := &fnInfo{}
	i.fninfo[fn] = fi
	if fn.Parent() == nil {
		if ext := externals[fn.String()]; ext != nil {
			fi.ext = ext
		} else if ext := isHarnessFn(fn); ext != nil {
			fi.ext = ext
		} else if fn.Name() == "init" && fn.Pkg != nil && skipInit[fn.Pkg.Pkg.Path()] {
			fi.ext = func(fr *frame, args []value) value { return nil }
		}
	}
	if fi.ext == nil && fn.Blocks != nil {
		fi.blockPure = make([]bool, len(fn.Blocks))
		for bi, b := range fn.Blocks {
			fi.blockPure[bi] = i.blockIsPure(b, false)
		}
		fi.pure = i.computePure(fn, map[*ssa.Function]bool{})
		fi.pureKnown = true
	}
	return fi
}

func isBasicScalar(t types.Type) bool {
	b, ok := t.Underlying().(*types.Basic)
	return ok && b.Info()&(types.IsInteger|types.IsBoolean) != 0
}

func (i *interpreter) instrIsPure(instr ssa.Instruction, allowReturn bool, visiting map[*ssa.Function]bool) bool {
	switch in := instr.(type) {
	case *ssa.DebugRef, *ssa.Phi, *ssa.If, *ssa.Jump:
		return true
	case *ssa.Return:
		return allowReturn
	case *ssa.BinOp:
		if in.Op == token.QUO || in.Op == token.REM {
			return false
		}
		return isBasicScalar(in.X.Type())
	case *ssa.UnOp:
		return (in.Op == token.NOT || in.Op == token.SUB || in.Op == token.XOR) && isBasicScalar(in.X.Type())
	case *ssa.Convert:
		return isBasicScalar(in.Type()) && isBasicScalar(in.X.Type())
	case *ssa.ChangeType:
		return isBasicScalar(in.Type())
	case *ssa.Call:
		callee := in.Call.StaticCallee()
		if callee == nil || in.Call.IsInvoke() || callee.Blocks == nil {
			return false
		}
		if visiting != nil {
			return i.computePure(callee, visiting)
		}
		fi := i.fnInfo(callee)
		return fi.pure
	}
	return false
}

func (i *interpreter) blockIsPure(b *ssa.BasicBlock, allowReturn bool) bool {
	for _, instr := range b.Instrs {
		if _, isCall := instr.(*ssa.Call); isCall {
			// resolved lazily to avoid deep recursion at analysis time
			callee := instr.(*ssa.Call).Call.StaticCallee()
			if callee == nil || callee.Blocks == nil || callee == b.Parent() {
				return false
			}
			if !i.fnInfo(callee).pure {
				return false
			}
			continue
		}
		if !i.instrIsPure(instr, allowReturn, nil) {
			return false
		}
	}
	return true
}

// computePure: every block pure (returns allowed), CFG acyclic, scalar results, no free variables.
func (i *interpreter) computePure(fn *ssa.Function, visiting map[*ssa.Function]bool) bool {
	if fi, ok := i.fninfo[fn]; ok && fi.pureKnown {
		return fi.pure
	}
	if visiting[fn] || fn.Blocks == nil || len(fn.FreeVars) > 0 || len(fn.Blocks) > 24 {
		return false
	}
	if fn.Parent() == nil && externals[fn.String()] != nil {
		return false
	}
	res := fn.Signature.Results()
	if res.Len() == 0 {
		return false
	}
	for k := 0; k < res.Len(); k++ {
		if !isBasicScalar(res.At(k).Type()) {
			return false
		}
	}
	visiting[fn] = true
	defer delete(visiting, fn)
	for _, b := range fn.Blocks {
		for _, instr := range b.Instrs {
			if !i.instrIsPure(instr, true, visiting) {
				return false
			}
		}
	}
	// acyclic?
	state := make([]int, len(fn.Blocks))
	var dfs func(b *ssa.BasicBlock) bool
	dfs = func(b *ssa.BasicBlock) bool {
		state[b.Index] = 1
		for _, s := range b.Succs {
			if state[s.Index] == 1 {
				return false
			}
			if state[s.Index] == 0 && !dfs(s) {
				return false
			}
		}
		state[b.Index] = 2
		return true
	}
	return dfs(fn.Blocks[0])
}

func anySym(args []value) bool {
	for _, a := range args {
		if isSym(a) {
			return true
		}
	}
	return false
}

// lenv is a persistent (linked) local environment for region evaluation.
type lenv struct {
	k      ssa.Value
	v      value
	parent *lenv
}

func (e *lenv) get(k ssa.Value) (value, bool) {
	for ; e != nil; e = e.parent {
		if e.k == k {
			return e.v, true
		}
	}
	return nil, false
}

type regionExit struct {
	target  *ssa.BasicBlock
	pred    *ssa.BasicBlock
	guard   *Term
	env     *lenv
	results []value // for Return exits
}

type regionWalker struct {
	fr       *frame
	base     func(ssa.Value) value
	exits    []regionExit
	onStack  map[*ssa.BasicBlock]bool
	steps    int
	failed   bool
	retMode  bool
	fi       *fnInfo
	maxExits int
}

func (w *regionWalker) lookup(env *lenv, v ssa.Value) value {
	if x, ok := env.get(v); ok {
		return x
	}
	return w.base(v)
}

// walk evaluates block b entered from pred under guard g.
func (w *regionWalker) walk(b, pred *ssa.BasicBlock, g *Term, env *lenv) {
	if w.failed {
		return
	}
	w.steps++
	if w.steps > 400 || len(w.exits) > w.maxExits {
		w.failed = true
		return
	}
	pure := w.fi.blockPure[b.Index]
	if w.retMode {
		pure = true // whole function was classified pure
	}
	if !pure || w.onStack[b] {
		w.exits = append(w.exits, regionExit{target: b, pred: pred, guard: g, env: env})
		return
	}
	w.onStack[b] = true
	defer delete(w.onStack, b)
	// phis (parallel assignment)
	predIndex := -1
	for i, p := range b.Preds {
		if p == pred {
			predIndex = i
			break
		}
	}
	var phiVals []value
	nphi := 0
	for _, instr := range b.Instrs {
		phi, ok := instr.(*ssa.Phi)
		if !ok {
			break
		}
		nphi++
		phiVals = append(phiVals, w.lookup(env, phi.Edges[predIndex]))
	}
	for k := 0; k < nphi; k++ {
		env = &lenv{b.Instrs[k].(*ssa.Phi), phiVals[k], env}
	}
	for _, instr := range b.Instrs[nphi:] {
		switch in := instr.(type) {
		case *ssa.DebugRef:
		case *ssa.BinOp:
			env = &lenv{in, binop(in.Op, in.X.Type(), w.lookup(env, in.X), w.lookup(env, in.Y)), env}
		case *ssa.UnOp:
			x := w.lookup(env, in.X)
			if sx, ok := x.(sym); ok {
				env = &lenv{in, symUnop(in.Op, sx), env}
			} else {
				env = &lenv{in, unop(in, x), env}
			}
		case *ssa.Convert:
			env = &lenv{in, conv(in.Type(), in.X.Type(), w.lookup(env, in.X)), env}
		case *ssa.ChangeType:
			env = &lenv{in, w.lookup(env, in.X), env}
		case *ssa.Call:
			callee := in.Call.StaticCallee()
			args := make([]value, len(in.Call.Args))
			for k, a := range in.Call.Args {
				args[k] = w.lookup(env, a)
			}
			var res value
			if anySym(args) {
				r, ok := summariseCall(w.fr, callee, args)
				if !ok {
					w.failed = true
					return
				}
				res = r
			} else {
				res = callSSA(w.fr.i, w.fr, in.Pos(), callee, args, nil)
			}
			env = &lenv{in, res, env}
		case *ssa.Return:
			rs := make([]value, len(in.Results))
			for k, r := range in.Results {
				rs[k] = w.lookup(env, r)
			}
			w.exits = append(w.exits, regionExit{guard: g, env: env, results: rs})
			return
		case *ssa.Jump:
			w.walk(b.Succs[0], b, g, env)
			return
		case *ssa.If:
			c := w.lookup(env, in.Cond)
			if sc, ok := c.(sym); ok {
				ctx := cur.ctx
				gt := ctx.And(g, sc.t)
				gf := ctx.And(g, ctx.Not(sc.t))
				if !(gt.IsConst() && gt.Val == 0) {
					w.walk(b.Succs[0], b, gt, env)
				}
				if !(gf.IsConst() && gf.Val == 0) {
					w.walk(b.Succs[1], b, gf, env)
				}
			} else if c.(bool) {
				w.walk(b.Succs[0], b, g, env)
			} else {
				w.walk(b.Succs[1], b, g, env)
			}
			return
		default:
			w.failed = true
			return
		}
	}
}

// mergeScalar builds ite(g1, v1, ite(g2, v2, ... vk)). ok=false if a value is not a scalar.
func mergeScalar(guards []*Term, vals []value) (value, bool) {
	same := true
	for _, v := range vals[1:] {
		if !sameScalar(vals[0], v) {
			same = false
			break
		}
	}
	if same {
		return vals[0], true
	}
	k := kindOfValue(vals[0])
	if k == types.Invalid {
		return nil, false
	}
	// Only flags and bytes are merged into ite terms. Merging wider integers would turn loop
	// counters and indices (binary searches, cursors) into symbolic values that then have to be
	// concretised through the solver; for those an ordinary fork is cheaper.
	if k != types.Bool && k != types.Uint8 && k != types.Int8 {
		return nil, false
	}
	for _, v := range vals {
		if kindOfValue(v) != k {
			return nil, false
		}
	}
	r := termOf(vals[len(vals)-1])
	for i := len(vals) - 2; i >= 0; i-- {
		r = cur.ctx.Ite(guards[i], termOf(vals[i]), r)
	}
	return mkSym(r, k), true
}

func sameScalar(a, b value) bool {
	sa, oka := a.(sym)
	sb, okb := b.(sym)
	if oka || okb {
		return oka && okb && sa.t == sb.t && sa.k == sb.k
	}
	if kindOfValue(a) == types.Invalid || kindOfValue(b) == types.Invalid {
		// non-scalars: identical only if comparable and equal
		defer func() { recover() }()
		return a == b
	}
	return a == b
}

// symbolicIf coalesces the pure region below a symbolic If. It returns false if it did
// nothing (the caller then performs an ordinary two-way branch).
func (fr *frame) symbolicIf(instr *ssa.If, sc sym) bool {
	if cur == nil || !cur.coalesce {
		return false
	}
	b := instr.Block()
	fi := fr.i.fnInfo(fr.fn)
	s0, s1 := b.Succs[0], b.Succs[1]
	if !fi.blockPure[s0.Index] && !fi.blockPure[s1.Index] {
		return false
	}
	ctx := cur.ctx
	w := &regionWalker{fr: fr, base: fr.get, onStack: map[*ssa.BasicBlock]bool{b: true}, fi: fi, maxExits: 64}
	w.walk(s0, b, sc.t, nil)
	w.walk(s1, b, ctx.Not(sc.t), nil)
	if w.failed || len(w.exits) == 0 {
		return false
	}
	// group exits by target
	var order []*ssa.BasicBlock
	groups := map[*ssa.BasicBlock][]int{}
	for i, ex := range w.exits {
		if _, ok := groups[ex.target]; !ok {
			order = append(order, ex.target)
		}
		groups[ex.target] = append(groups[ex.target], i)
	}
	type merged struct {
		target *ssa.BasicBlock
		env    map[ssa.Value]value
		guard  *Term
		pred   *ssa.BasicBlock
	}
	var ms []merged
	for _, tgt := range order {
		idxs := groups[tgt]
		guards := make([]*Term, len(idxs))
		g := ctx.False
		for k, i := range idxs {
			guards[k] = w.exits[i].guard
			g = ctx.Or(g, guards[k])
		}
		m := merged{target: tgt, env: map[ssa.Value]value{}, guard: g, pred: w.exits[idxs[0]].pred}
		// values defined on every member path
		first := w.exits[idxs[0]].env
		for e := first; e != nil; e = e.parent {
			if _, done := m.env[e.k]; done {
				continue
			}
			vals := make([]value, len(idxs))
			okAll := true
			for k, i := range idxs {
				v, ok := w.exits[i].env.get(e.k)
				if !ok {
					okAll = false
					break
				}
				vals[k] = v
			}
			if !okAll {
				continue
			}
			mv, ok := mergeScalar(guards, vals)
			if !ok {
				return false
			}
			m.env[e.k] = mv
		}
		// phis of the target
		for _, in := range tgt.Instrs {
			phi, ok := in.(*ssa.Phi)
			if !ok {
				break
			}
			vals := make([]value, len(idxs))
			for k, i := range idxs {
				ex := w.exits[i]
				pi := -1
				for j, p := range tgt.Preds {
					if p == ex.pred {
						pi = j
						break
					}
				}
				if x, ok := ex.env.get(phi.Edges[pi]); ok {
					vals[k] = x
				} else {
					vals[k] = fr.get(phi.Edges[pi])
				}
			}
			mv, ok := mergeScalar(guards, vals)
			if !ok {
				return false
			}
			m.env[phi] = mv
		}
		ms = append(ms, m)
	}
	choice := 0
	if len(ms) > 1 {
		gs := make([]*Term, len(ms))
		for i, m := range ms {
			gs[i] = m.guard
		}
		choice = cur.Choose(gs)
	} else {
		cur.stats.Merged++
	}
	if len(w.exits) > len(ms) {
		cur.stats.Merged++
	}
	m := ms[choice]
	for k, v := range m.env {
		fr.env[k] = v
	}
	if cur.siteOf != nil {
		cur.noteRegionSite(instr, m.target)
	}
	fr.prevBlock, fr.block = m.pred, m.target
	fr.skipPhis = true
	return true
}

// summariseCall evaluates a pure acyclic function on (partly) symbolic arguments into one value.
func summariseCall(fr *frame, fn *ssa.Function, args []value) (value, bool) {
	fi := fr.i.fnInfo(fn)
	if !fi.pure {
		return nil, false
	}
	var env *lenv
	for i, p := range fn.Params {
		env = &lenv{p, args[i], env}
	}
	w := &regionWalker{fr: fr, base: func(v ssa.Value) value {
		switch v := v.(type) {
		case *ssa.Const:
			return constValue(v)
		case *ssa.Function, *ssa.Builtin:
			return v
		case *ssa.Global:
			return fr.i.globals[v]
		}
		panic("summariseCall: free value " + v.Name())
	}, onStack: map[*ssa.BasicBlock]bool{}, fi: fi, retMode: true, maxExits: 256}
	w.walk(fn.Blocks[0], nil, cur.ctx.True, env)
	if w.failed || len(w.exits) == 0 {
		return nil, false
	}
	guards := make([]*Term, len(w.exits))
	for i, ex := range w.exits {
		guards[i] = ex.guard
	}
	nres := len(w.exits[0].results)
	out := make([]value, nres)
	for r := 0; r < nres; r++ {
		vals := make([]value, len(w.exits))
		for i, ex := range w.exits {
			vals[i] = ex.results[r]
		}
		mv, ok := mergeScalar(guards, vals)
		if !ok {
			return nil, false
		}
		out[r] = mv
	}
	cur.stats.Summarised++
	if nres == 1 {
		return out[0], true
	}
	return tuple(out), true
}
