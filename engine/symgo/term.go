package symgo

// Hash-consed SMT term DAG over bit-vectors and booleans, with constant
// folding, light simplification, concrete evaluation and SMT-LIB2 output.

import (
	"fmt"
	"sort"
	"strings"
)

type Op uint8

const (
	OpConst Op = iota
	OpVar
	OpAdd
	OpSub
	OpMul
	OpUDiv
	OpURem
	OpSDiv
	OpSRem
	OpAnd
	OpOr
	OpXor
	OpNot // bitwise not (bv) or logical not (bool)
	OpNeg
	OpShl
	OpLShr
	OpAShr
	OpZExt
	OpSExt
	OpExtract // low bits [w-1:0] only (truncate) — val holds nothing
	OpIte
	OpEq
	OpUlt
	OpUle
	OpSlt
	OpSle
	OpBAnd
	OpBOr
)

var opNames = [...]string{"const", "var", "bvadd", "bvsub", "bvmul", "bvudiv", "bvurem", "bvsdiv", "bvsrem",
	"bvand", "bvor", "bvxor", "not", "bvneg", "bvshl", "bvlshr", "bvashr", "zext", "sext", "extract", "ite", "=",
	"bvult", "bvule", "bvslt", "bvsle", "and", "or"}

// Term is an immutable node. W==0 means Bool, otherwise a bit-vector of W bits (W<=64).
type Term struct {
	Op   Op
	W    uint8
	Args []*Term
	Val  uint64 // OpConst: value (masked; bool 0/1)
	Name string // OpVar
	ID   int
	// variable dependency summary
	uvar  *Term // the first variable this term depends on (nvars 1 or 2)
	uvar2 *Term // the second variable (nvars == 2)
	nvars int   // 0, 1, 2, or 3 (= three or more)
	tab2  *[256][4]uint64 // cache: truth table over (uvar, uvar2) for Bool terms with two 8-bit variables
	// cache: truth set over the unique 8-bit variable (Bool terms) or value table (bv terms)
	truth *[4]uint64
	vals  *[256]uint64
}

func (t *Term) IsConst() bool { return t.Op == OpConst }
func (t *Term) IsBool() bool  { return t.W == 0 }

type termKey struct {
	op         Op
	w          uint8
	a0, a1, a2 int
	val        uint64
	name       string
}

// TermCtx owns the hash-consing table. One per explored path (reset between paths).
type TermCtx struct {
	tab   map[termKey]*Term
	next  int
	True  *Term
	False *Term
	Vars  []*Term
}

func NewTermCtx() *TermCtx {
	c := &TermCtx{tab: make(map[termKey]*Term, 1024)}
	c.False = c.mk(OpConst, 0, nil, 0, "")
	c.True = c.mk(OpConst, 0, nil, 1, "")
	return c
}

func mask(w uint8) uint64 {
	if w >= 64 {
		return ^uint64(0)
	}
	if w == 0 {
		return 1
	}
	return (uint64(1) << w) - 1
}

func sext64(v uint64, w uint8) int64 {
	if w >= 64 {
		return int64(v)
	}
	sh := 64 - uint(w)
	return int64(v<<sh) >> sh
}

func (c *TermCtx) mk(op Op, w uint8, args []*Term, val uint64, name string) *Term {
	k := termKey{op: op, w: w, val: val, name: name, a0: -1, a1: -1, a2: -1}
	if len(args) > 0 {
		k.a0 = args[0].ID
	}
	if len(args) > 1 {
		k.a1 = args[1].ID
	}
	if len(args) > 2 {
		k.a2 = args[2].ID
	}
	if t, ok := c.tab[k]; ok {
		return t
	}
	t := &Term{Op: op, W: w, Args: args, Val: val, Name: name, ID: c.next}
	c.next++
	switch op {
	case OpVar:
		t.uvar, t.nvars = t, 1
	case OpConst:
	default:
		add := func(v *Term) {
			switch {
			case t.nvars >= 3 || v == nil:
			case t.nvars == 0:
				t.nvars, t.uvar = 1, v
			case t.uvar == v || t.uvar2 == v:
			case t.nvars == 1:
				t.nvars, t.uvar2 = 2, v
				if t.uvar2.ID < t.uvar.ID {
					t.uvar, t.uvar2 = t.uvar2, t.uvar
				}
			default:
				t.nvars, t.uvar, t.uvar2 = 3, nil, nil
			}
		}
		for _, a := range args {
			if a.nvars >= 3 {
				t.nvars, t.uvar, t.uvar2 = 3, nil, nil
				break
			}
			if a.nvars >= 1 {
				add(a.uvar)
			}
			if a.nvars == 2 {
				add(a.uvar2)
			}
		}
	}
	c.tab[k] = t
	return t
}

func (c *TermCtx) Const(w uint8, v uint64) *Term {
	return c.mk(OpConst, w, nil, v&mask(w), "")
}
func (c *TermCtx) Bool(b bool) *Term {
	if b {
		return c.True
	}
	return c.False
}
func (c *TermCtx) Var(name string, w uint8) *Term {
	k := termKey{op: OpVar, w: w, name: name, a0: -1, a1: -1, a2: -1}
	if t, ok := c.tab[k]; ok {
		return t
	}
	t := c.mk(OpVar, w, nil, 0, name)
	c.Vars = append(c.Vars, t)
	return t
}

// evalOp computes op on constant operands.
func evalOp(op Op, w uint8, aw uint8, a, b, cc uint64) uint64 {
	m := mask(w)
	switch op {
	case OpAdd:
		return (a + b) & m
	case OpSub:
		return (a - b) & m
	case OpMul:
		return (a * b) & m
	case OpUDiv:
		if b == 0 {
			return m
		}
		return (a / b) & m
	case OpURem:
		if b == 0 {
			return a
		}
		return (a % b) & m
	case OpSDiv:
		sa, sb := sext64(a, w), sext64(b, w)
		if sb == 0 {
			if sa < 0 {
				return 1
			}
			return m
		}
		if sb == -1 {
			return uint64(-sa) & m
		}
		return uint64(sa/sb) & m
	case OpSRem:
		sa, sb := sext64(a, w), sext64(b, w)
		if sb == 0 {
			return a
		}
		if sb == -1 {
			return 0
		}
		return uint64(sa%sb) & m
	case OpAnd:
		return a & b
	case OpOr:
		return a | b
	case OpXor:
		return (a ^ b) & m
	case OpNot:
		if w == 0 {
			return a ^ 1
		}
		return (^a) & m
	case OpNeg:
		return (-a) & m
	case OpShl:
		if b >= uint64(w) {
			return 0
		}
		return (a << b) & m
	case OpLShr:
		if b >= uint64(w) {
			return 0
		}
		return a >> b
	case OpAShr:
		sa := sext64(a, w)
		if b >= uint64(w) {
			b = uint64(w) - 1
		}
		return uint64(sa>>b) & m
	case OpZExt:
		return a
	case OpSExt:
		return uint64(sext64(a, aw)) & m
	case OpExtract:
		return a & m
	case OpIte:
		if a != 0 {
			return b
		}
		return cc
	case OpEq:
		if a == b {
			return 1
		}
		return 0
	case OpUlt:
		if a < b {
			return 1
		}
		return 0
	case OpUle:
		if a <= b {
			return 1
		}
		return 0
	case OpSlt:
		if sext64(a, aw) < sext64(b, aw) {
			return 1
		}
		return 0
	case OpSle:
		if sext64(a, aw) <= sext64(b, aw) {
			return 1
		}
		return 0
	case OpBAnd:
		return a & b
	case OpBOr:
		return a | b
	}
	panic("evalOp: bad op")
}

// Un builds a unary operation (OpNot, OpNeg).
func (c *TermCtx) Un(op Op, a *Term) *Term {
	if a.IsConst() {
		return c.Const(a.W, evalOp(op, a.W, a.W, a.Val, 0, 0))
	}
	if op == OpNot && a.Op == OpNot {
		return a.Args[0]
	}
	return c.mk(op, a.W, []*Term{a}, 0, "")
}

func (c *TermCtx) Not(a *Term) *Term { return c.Un(OpNot, a) }

// Bin builds a binary bit-vector operation with result width == operand width.
func (c *TermCtx) Bin(op Op, a, b *Term) *Term {
	if a.W != b.W {
		panic(fmt.Sprintf("Bin %s: width mismatch %d vs %d", opNames[op], a.W, b.W))
	}
	if a.IsConst() && b.IsConst() {
		return c.Const(a.W, evalOp(op, a.W, a.W, a.Val, b.Val, 0))
	}
	w := a.W
	switch op {
	case OpAdd:
		if a.IsConst() && a.Val == 0 {
			return b
		}
		if b.IsConst() && b.Val == 0 {
			return a
		}
		if a.IsConst() { // canonical: const on the right
			a, b = b, a
		}
		// (x + c1) + c2
		if b.IsConst() && a.Op == OpAdd && a.Args[1].IsConst() {
			return c.Bin(OpAdd, a.Args[0], c.Const(w, a.Args[1].Val+b.Val))
		}
	case OpSub:
		if b.IsConst() {
			return c.Bin(OpAdd, a, c.Const(w, -b.Val))
		}
		if a == b {
			return c.Const(w, 0)
		}
	case OpMul:
		if a.IsConst() {
			a, b = b, a
		}
		if b.IsConst() {
			if b.Val == 0 {
				return b
			}
			if b.Val == 1 {
				return a
			}
		}
	case OpAnd:
		if a.IsConst() {
			a, b = b, a
		}
		if b.IsConst() {
			if b.Val == 0 {
				return b
			}
			if b.Val == mask(w) {
				return a
			}
		}
		if a == b {
			return a
		}
	case OpOr:
		if a.IsConst() {
			a, b = b, a
		}
		if b.IsConst() {
			if b.Val == 0 {
				return a
			}
			if b.Val == mask(w) {
				return b
			}
		}
		if a == b {
			return a
		}
	case OpXor:
		if a.IsConst() {
			a, b = b, a
		}
		if b.IsConst() && b.Val == 0 {
			return a
		}
		if a == b {
			return c.Const(w, 0)
		}
	case OpShl, OpLShr, OpAShr:
		if b.IsConst() && b.Val == 0 {
			return a
		}
		if a.IsConst() && a.Val == 0 {
			return a
		}
	}
	return c.mk(op, w, []*Term{a, b}, 0, "")
}

// Cmp builds a comparison (OpEq, OpUlt, OpUle, OpSlt, OpSle) yielding Bool.
func (c *TermCtx) Cmp(op Op, a, b *Term) *Term {
	if a.W != b.W {
		panic(fmt.Sprintf("Cmp %s: width mismatch %d vs %d", opNames[op], a.W, b.W))
	}
	if a.IsConst() && b.IsConst() {
		return c.Bool(evalOp(op, 0, a.W, a.Val, b.Val, 0) != 0)
	}
	if a == b {
		switch op {
		case OpEq, OpUle, OpSle:
			return c.True
		default:
			return c.False
		}
	}
	switch op {
	case OpUlt:
		if b.IsConst() && umax(a) < b.Val {
			return c.True
		}
		if a.IsConst() && a.Val >= umax(b) {
			return c.False
		}
		if b.IsConst() && b.Val == 0 {
			return c.False
		}
	case OpUle:
		if b.IsConst() && umax(a) <= b.Val {
			return c.True
		}
		if a.IsConst() && a.Val > umax(b) {
			return c.False
		}
		if a.IsConst() && a.Val == 0 {
			return c.True
		}
	case OpEq:
		if b.IsConst() && b.Val > umax(a) {
			return c.False
		}
		if a.IsConst() && a.Val > umax(b) {
			return c.False
		}
	}
	if op == OpEq {
		if a.W == 0 { // bool equality
			if b.IsConst() {
				a, b = b, a
			}
			if a.IsConst() {
				if a.Val == 1 {
					return b
				}
				return c.Not(b)
			}
		}
		if a.IsConst() {
			a, b = b, a
		}
		// zext(x) == const  →  x == const (if it fits) else false
		if b.IsConst() && a.Op == OpZExt {
			in := a.Args[0]
			if b.Val > mask(in.W) {
				return c.False
			}
			return c.Cmp(OpEq, in, c.Const(in.W, b.Val))
		}
		if a.ID > b.ID && !b.IsConst() {
			a, b = b, a
		}
	}
	return c.mk(op, 0, []*Term{a, b}, 0, "")
}

func (c *TermCtx) Eq(a, b *Term) *Term { return c.Cmp(OpEq, a, b) }

func (c *TermCtx) And(a, b *Term) *Term {
	if a.IsConst() {
		if a.Val == 1 {
			return b
		}
		return a
	}
	if b.IsConst() {
		if b.Val == 1 {
			return a
		}
		return b
	}
	if a == b {
		return a
	}
	return c.mk(OpBAnd, 0, []*Term{a, b}, 0, "")
}

func (c *TermCtx) Or(a, b *Term) *Term {
	if a.IsConst() {
		if a.Val == 1 {
			return a
		}
		return b
	}
	if b.IsConst() {
		if b.Val == 1 {
			return b
		}
		return a
	}
	if a == b {
		return a
	}
	return c.mk(OpBOr, 0, []*Term{a, b}, 0, "")
}

func (c *TermCtx) Ite(cond, a, b *Term) *Term {
	if cond.IsConst() {
		if cond.Val == 1 {
			return a
		}
		return b
	}
	if a == b {
		return a
	}
	if a.W != b.W {
		panic("Ite: width mismatch")
	}
	if a.W == 0 {
		if a.IsConst() && b.IsConst() {
			if a.Val == 1 {
				return cond
			}
			return c.Not(cond)
		}
		if a.IsConst() {
			if a.Val == 1 {
				return c.Or(cond, b)
			}
			return c.And(c.Not(cond), b)
		}
		if b.IsConst() {
			if b.Val == 1 {
				return c.Or(c.Not(cond), a)
			}
			return c.And(cond, a)
		}
	}
	return c.mk(OpIte, a.W, []*Term{cond, a, b}, 0, "")
}

// Ext converts a to width w: truncates, or extends (signed selects sign extension).
func (c *TermCtx) Ext(a *Term, w uint8, signed bool) *Term {
	if a.W == w {
		return a
	}
	if a.W == 0 {
		panic("Ext on bool")
	}
	if w < a.W {
		if a.IsConst() {
			return c.Const(w, a.Val)
		}
		// truncation of an extension of something narrower
		if (a.Op == OpZExt || a.Op == OpSExt) && a.Args[0].W <= w {
			return c.Ext(a.Args[0], w, a.Op == OpSExt)
		}
		return c.mk(OpExtract, w, []*Term{a}, 0, "")
	}
	if a.IsConst() {
		if signed {
			return c.Const(w, uint64(sext64(a.Val, a.W)))
		}
		return c.Const(w, a.Val)
	}
	if signed {
		return c.mk(OpSExt, w, []*Term{a}, 0, "")
	}
	if a.Op == OpZExt {
		return c.mk(OpZExt, w, []*Term{a.Args[0]}, 0, "")
	}
	return c.mk(OpZExt, w, []*Term{a}, 0, "")
}

// Eval evaluates t under env (variable -> value). Missing variables are 0.
func Eval(t *Term, env map[*Term]uint64, memo map[*Term]uint64) uint64 {
	switch t.Op {
	case OpConst:
		return t.Val
	case OpVar:
		return env[t] & mask(t.W)
	}
	if v, ok := memo[t]; ok {
		return v
	}
	var a, b, cc uint64
	var aw uint8
	if t.Op == OpIte {
		a = Eval(t.Args[0], env, memo)
		var v uint64
		if a != 0 {
			v = Eval(t.Args[1], env, memo)
		} else {
			v = Eval(t.Args[2], env, memo)
		}
		memo[t] = v
		return v
	}
	if len(t.Args) > 0 {
		a = Eval(t.Args[0], env, memo)
		aw = t.Args[0].W
	}
	if len(t.Args) > 1 {
		b = Eval(t.Args[1], env, memo)
	}
	if len(t.Args) > 2 {
		cc = Eval(t.Args[2], env, memo)
	}
	w := t.W
	if t.Op >= OpEq && t.Op <= OpSle {
		w = 0
	}
	v := evalOp(t.Op, w, aw, a, b, cc)
	memo[t] = v
	return v
}

// evalU evaluates a term depending on a single variable at value x.
func evalU(t *Term, x uint64) uint64 {
	switch t.Op {
	case OpConst:
		return t.Val
	case OpVar:
		return x
	}
	if t.vals != nil && x < 256 {
		return t.vals[x]
	}
	var a, b, cc uint64
	var aw uint8
	if t.Op == OpIte {
		if evalU(t.Args[0], x) != 0 {
			return evalU(t.Args[1], x)
		}
		return evalU(t.Args[2], x)
	}
	if len(t.Args) > 0 {
		a = evalU(t.Args[0], x)
		aw = t.Args[0].W
	}
	if len(t.Args) > 1 {
		b = evalU(t.Args[1], x)
	}
	if len(t.Args) > 2 {
		cc = evalU(t.Args[2], x)
	}
	w := t.W
	if t.Op >= OpEq && t.Op <= OpSle {
		w = 0
	}
	return evalOp(t.Op, w, aw, a, b, cc)
}

// IsUnary8 reports whether t depends on exactly one variable and that variable is 8 bits wide.
func (t *Term) IsUnary8() bool { return t.nvars == 1 && t.uvar.W == 8 }

// ValTable returns t's value for each of the 256 values of its unique 8-bit variable.
func (t *Term) ValTable() *[256]uint64 {
	if t.vals != nil {
		return t.vals
	}
	var tab [256]uint64
	for x := 0; x < 256; x++ {
		tab[x] = evalU(t, uint64(x))
	}
	t.vals = &tab
	return t.vals
}

// TruthSet returns the set of values of the unique 8-bit variable for which Bool term t holds.
func (t *Term) TruthSet() *[4]uint64 {
	if t.truth != nil {
		return t.truth
	}
	tab := t.ValTable()
	var s [4]uint64
	for x := 0; x < 256; x++ {
		if tab[x] != 0 {
			s[x>>6] |= 1 << (uint(x) & 63)
		}
	}
	t.truth = &s
	return t.truth
}

// CollectVars appends the variables occurring in t to out (deduplicated through seen).
func CollectVars(t *Term, seen map[*Term]bool, out *[]*Term) {
	if t.nvars == 0 {
		return
	}
	if seen[t] {
		return
	}
	seen[t] = true
	if t.Op == OpVar {
		*out = append(*out, t)
		return
	}
	for _, a := range t.Args {
		CollectVars(a, seen, out)
	}
}

func sortName(w uint8) string {
	if w == 0 {
		return "Bool"
	}
	return fmt.Sprintf("(_ BitVec %d)", w)
}

func constLit(w uint8, v uint64) string {
	if w == 0 {
		if v != 0 {
			return "true"
		}
		return "false"
	}
	if w%4 == 0 {
		return fmt.Sprintf("#x%0*x", int(w/4), v)
	}
	return fmt.Sprintf("#b%0*b", int(w), v)
}

// smtWriter emits terms as a sequence of define-fun lines with sharing.
type smtWriter struct {
	sb      *strings.Builder
	defined map[*Term]string
	n       int
}

func newSMTWriter(sb *strings.Builder) *smtWriter {
	return &smtWriter{sb: sb, defined: map[*Term]string{}}
}

func (w *smtWriter) declareVars(vars []*Term) {
	sort.Slice(vars, func(i, j int) bool { return vars[i].ID < vars[j].ID })
	for _, v := range vars {
		if _, ok := w.defined[v]; ok {
			continue
		}
		fmt.Fprintf(w.sb, "(declare-const %s %s)\n", v.Name, sortName(v.W))
		w.defined[v] = v.Name
	}
}

// ref returns an SMT-LIB expression (a name) denoting t, emitting definitions as needed.
func (w *smtWriter) ref(t *Term) string {
	if s, ok := w.defined[t]; ok {
		return s
	}
	switch t.Op {
	case OpConst:
		return constLit(t.W, t.Val)
	case OpVar:
		panic("smtWriter: undeclared variable " + t.Name)
	}
	args := make([]string, len(t.Args))
	for i, a := range t.Args {
		args[i] = w.ref(a)
	}
	var e string
	switch t.Op {
	case OpZExt:
		e = fmt.Sprintf("((_ zero_extend %d) %s)", t.W-t.Args[0].W, args[0])
	case OpSExt:
		e = fmt.Sprintf("((_ sign_extend %d) %s)", t.W-t.Args[0].W, args[0])
	case OpExtract:
		e = fmt.Sprintf("((_ extract %d 0) %s)", t.W-1, args[0])
	case OpNot:
		if t.W == 0 {
			e = "(not " + args[0] + ")"
		} else {
			e = "(bvnot " + args[0] + ")"
		}
	default:
		e = "(" + opNames[t.Op] + " " + strings.Join(args, " ") + ")"
	}
	name := fmt.Sprintf("t!%d", w.n)
	w.n++
	fmt.Fprintf(w.sb, "(define-fun %s () %s %s)\n", name, sortName(t.W), e)
	w.defined[t] = name
	return name
}

// String renders a term for diagnostics (no sharing).
func (t *Term) String() string {
	switch t.Op {
	case OpConst:
		return constLit(t.W, t.Val)
	case OpVar:
		return t.Name
	}
	parts := make([]string, len(t.Args))
	for i, a := range t.Args {
		parts[i] = a.String()
	}
	return "(" + opNames[t.Op] + " " + strings.Join(parts, " ") + ")"
}

// umax returns an upper bound of t read as an unsigned number.
func umax(t *Term) uint64 {
	switch t.Op {
	case OpConst:
		return t.Val
	case OpZExt:
		return umax(t.Args[0])
	case OpAnd:
		a, b := umax(t.Args[0]), umax(t.Args[1])
		if a < b {
			return a
		}
		return b
	case OpLShr:
		if t.Args[1].IsConst() && t.Args[1].Val < 64 {
			return umax(t.Args[0]) >> t.Args[1].Val
		}
		return umax(t.Args[0])
	case OpURem:
		if t.Args[1].IsConst() && t.Args[1].Val > 0 {
			return t.Args[1].Val - 1
		}
	case OpIte:
		a, b := umax(t.Args[1]), umax(t.Args[2])
		if a > b {
			return a
		}
		return b
	case OpOr, OpXor:
		a, b := umax(t.Args[0]), umax(t.Args[1])
		if a < b {
			a = b
		}
		// next power of two minus one
		for i := uint(1); i < 64; i <<= 1 {
			a |= a >> i
		}
		return a & mask(t.W)
	}
	return mask(t.W)
}

// IsBinary8 reports whether t depends on exactly two variables, both 8 bits wide.
func (t *Term) IsBinary8() bool {
	return t.nvars == 2 && t.uvar.W == 8 && t.uvar2.W == 8
}

// Table2 returns, for a Bool term over two 8-bit variables (a=uvar, b=uvar2), the set of b
// values satisfying it for each value of a.
func (t *Term) Table2() *[256][4]uint64 {
	if t.tab2 != nil {
		return t.tab2
	}
	memo := map[*Term]*[65536]uint64{}
	full := eval2(t, t.uvar, t.uvar2, memo)
	var out [256][4]uint64
	for x := 0; x < 256; x++ {
		for y := 0; y < 256; y++ {
			if full[x<<8|y] != 0 {
				out[x][y>>6] |= 1 << (uint(y) & 63)
			}
		}
	}
	t.tab2 = &out
	return t.tab2
}

func eval2(t, a, b *Term, memo map[*Term]*[65536]uint64) *[65536]uint64 {
	if r, ok := memo[t]; ok {
		return r
	}
	out := new([65536]uint64)
	switch {
	case t.nvars == 0:
		for i := range out {
			out[i] = t.Val
		}
	case t.nvars == 1:
		var tab *[256]uint64
		if t.uvar.W == 8 {
			tab = t.ValTable()
		}
		if t.uvar == a {
			for x := 0; x < 256; x++ {
				v := tab[x]
				for y := 0; y < 256; y++ {
					out[x<<8|y] = v
				}
			}
		} else {
			for x := 0; x < 256; x++ {
				for y := 0; y < 256; y++ {
					out[x<<8|y] = tab[y]
				}
			}
		}
	default:
		var as [3]*[65536]uint64
		for i, arg := range t.Args {
			as[i] = eval2(arg, a, b, memo)
		}
		w := t.W
		if t.Op >= OpEq && t.Op <= OpSle {
			w = 0
		}
		var aw uint8
		if len(t.Args) > 0 {
			aw = t.Args[0].W
		}
		switch len(t.Args) {
		case 1:
			for i := range out {
				out[i] = evalOp(t.Op, w, aw, as[0][i], 0, 0)
			}
		case 2:
			for i := range out {
				out[i] = evalOp(t.Op, w, aw, as[0][i], as[1][i], 0)
			}
		case 3:
			for i := range out {
				out[i] = evalOp(t.Op, w, aw, as[0][i], as[1][i], as[2][i])
			}
		}
	}
	memo[t] = out
	return out
}
