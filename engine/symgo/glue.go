package symgo

import (
	"fmt"
	"go/token"
	"go/types"

	"golang.org/x/tools/go/ssa"
)

func mustDeref(t types.Type) types.Type {
	if ptr, ok := t.Underlying().(*types.Pointer); ok {
		return ptr.Elem()
	}
	panic(fmt.Sprintf("%v is not a pointer", t))
}

func branchVal(v value) bool {
	switch v := v.(type) {
	case bool:
		return v
	case sym:
		return cur.Branch(v.t)
	}
	panic(fmt.Sprintf("branchVal: %T", v))
}

// indexTerm widens an index value to a 64-bit term (sign- or zero-extended by its Go type).
func indexTerm(s sym) *Term {
	_, signed := kindInfo(s.k)
	return cur.ctx.Ext(s.t, 64, signed)
}

func tableIsConcrete(elems []value) bool {
	if len(elems) == 0 || len(elems) > 4096 {
		return false
	}
	for _, e := range elems {
		if !isConcreteAgg(e) {
			return false
		}
	}
	return true
}

func isConcreteAgg(v value) bool {
	switch v := v.(type) {
	case sym:
		return true // symbolic cells are fine: merged through ite
	case structure:
		for _, f := range v {
			if !isConcreteAgg(f) {
				return false
			}
		}
		return true
	case array:
		for _, f := range v {
			if !isConcreteAgg(f) {
				return false
			}
		}
		return true
	}
	return kindOfValue(v) != types.Invalid
}

// addrIsStored reports whether the address computed by instr may be written through or escape.
func (fr *frame) addrIsStored(instr *ssa.IndexAddr) bool {
	refs := instr.Referrers()
	if refs == nil {
		return true
	}
	for _, r := range *refs {
		switch r := r.(type) {
		case *ssa.UnOp:
			if r.Op != token.MUL {
				return true
			}
		case *ssa.DebugRef:
		default:
			return true
		}
	}
	return false
}

// concKey makes a map key concrete (forking over feasible values if needed).
func concKey(k value) value {
	switch k := k.(type) {
	case sym:
		return concretize(k)
	case symStr:
		return concretizeStr(k)
	case iface:
		return iface{k.t, concKey(k.v)}
	}
	return k
}

// binopPos is binop with Go's run-time checks made explicit.
func binopPos(instr *ssa.BinOp, op token.Token, t types.Type, x, y value) value {
	if (op == token.QUO || op == token.REM) && !isSym(x) && !isSym(y) {
		if k := kindOfValue(y); k != types.Invalid && k != types.Bool && rawBits(y) == 0 {
			panic(targetRuntimePanic{"integer divide by zero", cur.posStr(instr.Pos())})
		}
	}
	if op == token.SHL || op == token.SHR {
		if !isSym(x) && !isSym(y) {
			if _, signed := kindInfo(kindOfValue(y)); signed && asInt64(y) < 0 {
				panic(targetRuntimePanic{"negative shift amount", cur.posStr(instr.Pos())})
			}
		}
	}
	return binop(op, t, x, y)
}

// sliceChecked performs x[lo:hi:max] with explicit bounds obligations.
func sliceChecked(instr *ssa.Slice, x, lo, hi, max value) value {
	var Len, Cap int64
	switch x := x.(type) {
	case string:
		Len = int64(len(x))
		Cap = Len
	case symStr:
		Len = int64(len(x))
		Cap = Len
	case []value:
		Len = int64(len(x))
		Cap = int64(cap(x))
	case *value:
		if x == nil {
			panic(targetRuntimePanic{"invalid memory address or nil pointer dereference", cur.posStr(instr.Pos())})
		}
		a := (*x).(array)
		Len = int64(len(a))
		Cap = int64(cap(a))
	default:
		panic(fmt.Sprintf("slice: unexpected X type: %T", x))
	}
	c := cur.ctx
	asT := func(v value, def int64) *Term {
		if v == nil {
			return c.Const(64, uint64(def))
		}
		if s, ok := v.(sym); ok {
			return indexTerm(s)
		}
		return c.Const(64, uint64(asInt64(v)))
	}
	anySymb := isSym(lo) || isSym(hi) || isSym(max)
	if anySymb {
		l := asT(lo, 0)
		h := asT(hi, Len)
		m := asT(max, Cap)
		// 0 <= lo <= hi <= max <= cap  (as unsigned comparisons on sign-extended values)
		ok := c.And(c.Cmp(OpUle, l, h), c.And(c.Cmp(OpUle, h, m), c.Cmp(OpUle, m, c.Const(64, uint64(Cap)))))
		if _, isStr := x.(string); isStr || isSymStr(x) {
			ok = c.And(c.Cmp(OpUle, l, h), c.Cmp(OpUle, h, c.Const(64, uint64(Len))))
		}
		cur.MayPanic(ok, "slice bounds out of range", instr.Pos())
		if lo != nil {
			lo = concretize(lo)
		}
		if hi != nil {
			hi = concretize(hi)
		}
		if max != nil {
			max = concretize(max)
		}
	}
	l, h, m := int64(0), Len, Cap
	if lo != nil {
		l = asInt64(lo)
	}
	if hi != nil {
		h = asInt64(hi)
	}
	if max != nil {
		m = asInt64(max)
	}
	lim := Cap
	if isStrVal(x) {
		lim = Len
		m = Len
	}
	if l < 0 || l > h || h > m || m > lim {
		panic(targetRuntimePanic{"slice bounds out of range", cur.posStr(instr.Pos())})
	}
	return slice(x, lo, hi, max)
}

func isSymStr(v value) bool {
	_, ok := v.(symStr)
	return ok
}

// site bookkeeping for known-finding matching: file:line of symbolic branch decisions
func (e *Exec) noteSite(instr *ssa.If, succ int) {
	if e.siteOf == nil {
		return
	}
	if e.siteOf(instr.Block().Parent()) {
		e.sites[fmt.Sprintf("%s/%d", e.posStr(instr.Cond.Pos()), succ)] = true
	}
}

func (e *Exec) noteRegionSite(instr *ssa.If, target *ssa.BasicBlock) {
	if e.siteOf == nil {
		return
	}
	if e.siteOf(instr.Block().Parent()) {
		e.sites[fmt.Sprintf("%s/b%d", e.posStr(instr.Cond.Pos()), target.Index)] = true
	}
}
