package symgo

// Solver layer: a persistent `z3 -in` process, the exact bitset procedure for
// single-byte constraints, and constraint-independence slicing.

import (
	"bufio"
	"fmt"
	"io"
	"os"
	"os/exec"
	"strconv"
	"strings"
	"time"
)

type SatResult int

const (
	Unsat SatResult = iota
	Sat
	Unknown
)

func (r SatResult) String() string { return [...]string{"unsat", "sat", "unknown"}[r] }

// Solver wraps one external SMT solver process speaking SMT-LIB2 on stdin/stdout.
type Solver struct {
	Name    string
	cmd     *exec.Cmd
	in      io.WriteCloser
	out     *bufio.Reader
	Queries int
	Wall    time.Duration
	Errors  int
	LogDir  string // if set, a sample of scripts is written here
	logged  int
	Timeout int // ms per query
	Timeouts int
	IntQueries int
	slowLogged int
}

func solverArgv(name string, timeoutMs int) []string {
	switch name {
	case "z3":
		return []string{"/usr/bin/z3", "-in", fmt.Sprintf("-t:%d", timeoutMs)}
	case "z3-new":
		return []string{"z3-new", "-in", fmt.Sprintf("-t:%d", timeoutMs)}
	case "cvc5":
		return []string{"/usr/bin/cvc5", "--incremental", "--lang=smt2", fmt.Sprintf("--tlimit-per=%d", timeoutMs), "--produce-models"}
	}
	panic("unknown solver " + name)
}

func NewSolver(name string, timeoutMs int) (*Solver, error) {
	argv := solverArgv(name, timeoutMs)
	cmd := exec.Command(argv[0], argv[1:]...)
	in, err := cmd.StdinPipe()
	if err != nil {
		return nil, err
	}
	out, err := cmd.StdoutPipe()
	if err != nil {
		return nil, err
	}
	cmd.Stderr = os.Stderr
	if err := cmd.Start(); err != nil {
		return nil, err
	}
	s := &Solver{Name: name, cmd: cmd, in: in, out: bufio.NewReaderSize(out, 1<<16), Timeout: timeoutMs}
	// No set-logic on purpose: z3 4.8.12 silently drops constructs under restrictive logics.
	io.WriteString(in, "(set-option :produce-models true)\n")
	return s, nil
}

func (s *Solver) Close() {
	if s == nil || s.cmd == nil {
		return
	}
	io.WriteString(s.in, "(exit)\n")
	s.in.Close()
	s.cmd.Wait()
	s.cmd = nil
}

// Check decides the conjunction of cons. If wantModel, returns values for vars.
func (s *Solver) Check(cons []*Term, doms map[*Term]*[4]uint64, wantModel []*Term) (SatResult, map[*Term]uint64, string) {
	start := time.Now()
	var sb strings.Builder
	intMode := false
	if addNodes(cons) > 64 {
		if sc, _, ok, why := intScript(cons, doms, wantModel); ok {
			sb.WriteString(sc)
			intMode = true
			s.IntQueries++
		} else if s.LogDir != "" {
			fmt.Fprintf(os.Stderr, "int encoding not applicable: %s\n", why)
		}
	}
	if !intMode {
		sb.WriteString("(reset)\n(set-option :produce-models true)\n")
		w := newSMTWriter(&sb)
		seen := map[*Term]bool{}
		var vars []*Term
		for _, c := range cons {
			CollectVars(c, seen, &vars)
		}
		for _, v := range wantModel {
			CollectVars(v, seen, &vars)
		}
		w.declareVars(vars)
		for _, v := range vars {
			if d, ok := doms[v]; ok {
				if e := domainExpr(v.Name, d); e != "" {
					fmt.Fprintf(&sb, "(assert %s)\n", e)
				}
			}
		}
		for _, c := range cons {
			r := w.ref(c)
			fmt.Fprintf(&sb, "(assert %s)\n", r)
		}
		sb.WriteString("(check-sat)\n")
	}
	script := sb.String()
	s.Queries++
	if s.LogDir != "" && s.logged < 5 {
		os.WriteFile(fmt.Sprintf("%s/query_%s_%d.smt2", s.LogDir, s.Name, s.logged), []byte(script), 0o644)
		s.logged++
	}
	io.WriteString(s.in, script)
	type ans struct {
		line string
		err  error
	}
	ch := make(chan ans, 1)
	go func() {
		l, e := s.readLine()
		ch <- ans{l, e}
	}()
	var line string
	var err error
	select {
	case a := <-ch:
		line, err = a.line, a.err
	case <-time.After(time.Duration(s.Timeout)*time.Millisecond + 3*time.Second):
		// the soft timeout was not honoured: kill and restart the solver; the verdict is "unknown"
		s.cmd.Process.Kill()
		<-ch
		s.cmd.Wait()
		s.Timeouts++
		fmt.Fprintf(os.Stderr, "solver %s killed after %v (script %d bytes)\n", s.Name, time.Since(start), len(script))
		if s.LogDir != "" {
			os.WriteFile(fmt.Sprintf("%s/timeout_%s_%d.smt2", s.LogDir, s.Name, s.Queries), []byte(script), 0o644)
		}
		if ns, e := NewSolver(s.Name, s.Timeout); e == nil {
			s.cmd, s.in, s.out = ns.cmd, ns.in, ns.out
		}
		s.Wall += time.Since(start)
		return Unknown, nil, script
	}
	res := Unknown
	if err != nil {
		s.Errors++
		s.Wall += time.Since(start)
		return Unknown, nil, script
	}
	switch line {
	case "sat":
		res = Sat
	case "unsat":
		res = Unsat
	default:
		// unknown, timeout, or an (error ...) line: inconclusive
		if strings.HasPrefix(line, "(error") {
			s.Errors++
		}
		fmt.Fprintf(os.Stderr, "solver %s answered %q after %v (script %d bytes)\n", s.Name, line, time.Since(start), len(script))
		if s.LogDir != "" {
			os.WriteFile(fmt.Sprintf("%s/unknown_%s_%d.smt2", s.LogDir, s.Name, s.Queries), []byte(script), 0o644)
		}
		res = Unknown
	}
	var model map[*Term]uint64
	if res == Sat && len(wantModel) > 0 {
		model = map[*Term]uint64{}
		// ask in chunks
		for i := 0; i < len(wantModel); i += 64 {
			j := i + 64
			if j > len(wantModel) {
				j = len(wantModel)
			}
			var q strings.Builder
			q.WriteString("(get-value (")
			for _, v := range wantModel[i:j] {
				q.WriteString(v.Name)
				q.WriteByte(' ')
			}
			q.WriteString("))\n")
			io.WriteString(s.in, q.String())
			type sx struct {
				txt string
				err error
			}
			sch := make(chan sx, 1)
			go func() {
				t, e := s.readSexp()
				sch <- sx{t, e}
			}()
			var txt string
			var err error
			select {
			case a := <-sch:
				txt, err = a.txt, a.err
			case <-time.After(time.Duration(s.Timeout)*time.Millisecond + 3*time.Second):
				s.cmd.Process.Kill()
				<-sch
				s.cmd.Wait()
				s.Timeouts++
				fmt.Fprintf(os.Stderr, "solver %s killed in get-value after %v (script %d bytes)\n", s.Name, time.Since(start), len(script))
				if s.LogDir != "" {
					os.WriteFile(fmt.Sprintf("%s/gvtimeout_%s_%d.smt2", s.LogDir, s.Name, s.Queries), []byte(script+q.String()), 0o644)
				}
				if ns, e := NewSolver(s.Name, s.Timeout); e == nil {
					s.cmd, s.in, s.out = ns.cmd, ns.in, ns.out
				}
				s.Wall += time.Since(start)
				return Unknown, nil, script
			}
			if err != nil {
				s.Errors++
				res = Unknown
				break
			}
			parseValues(txt, wantModel[i:j], model)
		}
	}
	s.Wall += time.Since(start)
	if s.LogDir != "" && time.Since(start) > 80*time.Millisecond && s.slowLogged < 5 {
		s.slowLogged++
		os.WriteFile(fmt.Sprintf("%s/slow_%s_%d_%dms.smt2", s.LogDir, s.Name, s.Queries, time.Since(start).Milliseconds()), []byte(script), 0o644)
	}
	return res, model, script
}

func (s *Solver) readLine() (string, error) {
	for {
		line, err := s.out.ReadString('\n')
		if err != nil {
			return "", err
		}
		line = strings.TrimSpace(line)
		if line == "" {
			continue
		}
		return line, nil
	}
}

// readSexp reads one balanced s-expression from the solver.
func (s *Solver) readSexp() (string, error) {
	var sb strings.Builder
	depth := 0
	started := false
	for {
		b, err := s.out.ReadByte()
		if err != nil {
			return "", err
		}
		sb.WriteByte(b)
		if b == '(' {
			depth++
			started = true
		} else if b == ')' {
			depth--
			if started && depth == 0 {
				return sb.String(), nil
			}
		}
	}
}

func parseValues(txt string, vars []*Term, out map[*Term]uint64) {
	// format: ((name #x..) (name #b..) (name true) ...)
	byName := map[string]*Term{}
	for _, v := range vars {
		byName[v.Name] = v
	}
	toks := strings.Fields(strings.NewReplacer("(", " ", ")", " ").Replace(txt))
	for i := 0; i+1 < len(toks); i++ {
		v, ok := byName[toks[i]]
		if !ok {
			continue
		}
		val := toks[i+1]
		var x uint64
		switch {
		case strings.HasPrefix(val, "#x"):
			x, _ = strconv.ParseUint(val[2:], 16, 64)
		case strings.HasPrefix(val, "#b"):
			x, _ = strconv.ParseUint(val[2:], 2, 64)
		case val == "-" && i+2 < len(toks):
			n, _ := strconv.ParseInt(toks[i+2], 10, 64)
			x = uint64(-n) & mask(v.W)
			i++
		case len(val) > 0 && val[0] >= '0' && val[0] <= '9':
			x, _ = strconv.ParseUint(val, 10, 64)
		case val == "true":
			x = 1
		case val == "false":
			x = 0
		case val == "_" && i+2 < len(toks) && strings.HasPrefix(toks[i+2], "bv"): // (_ bvN w)
			x, _ = strconv.ParseUint(toks[i+2][2:], 10, 64)
		}
		out[v] = x
		i++
	}
}

// domainExpr renders a 256-bit set as a disjunction of ranges over the 8-bit variable name.
func domainExpr(name string, d *[4]uint64) string {
	if d[0] == ^uint64(0) && d[1] == ^uint64(0) && d[2] == ^uint64(0) && d[3] == ^uint64(0) {
		return ""
	}
	var parts []string
	x := 0
	for x < 256 {
		if d[x>>6]&(1<<(uint(x)&63)) == 0 {
			x++
			continue
		}
		lo := x
		for x < 256 && d[x>>6]&(1<<(uint(x)&63)) != 0 {
			x++
		}
		hi := x - 1
		if lo == hi {
			parts = append(parts, fmt.Sprintf("(= %s #x%02x)", name, lo))
		} else {
			parts = append(parts, fmt.Sprintf("(and (bvuge %s #x%02x) (bvule %s #x%02x))", name, lo, name, hi))
		}
	}
	if len(parts) == 0 {
		return "false"
	}
	if len(parts) == 1 {
		return parts[0]
	}
	return "(or " + strings.Join(parts, " ") + ")"
}

func setEmpty(d *[4]uint64) bool { return d[0]|d[1]|d[2]|d[3] == 0 }
func setAnd(a, b *[4]uint64) [4]uint64 {
	return [4]uint64{a[0] & b[0], a[1] & b[1], a[2] & b[2], a[3] & b[3]}
}
func setAndNot(a, b *[4]uint64) [4]uint64 {
	return [4]uint64{a[0] &^ b[0], a[1] &^ b[1], a[2] &^ b[2], a[3] &^ b[3]}
}
func setHas(d *[4]uint64, x int) bool { return d[x>>6]&(1<<(uint(x)&63)) != 0 }
func setFirst(d *[4]uint64) int {
	for x := 0; x < 256; x++ {
		if setHas(d, x) {
			return x
		}
	}
	return -1
}
func setCount(d *[4]uint64) int {
	n := 0
	for x := 0; x < 256; x++ {
		if setHas(d, x) {
			n++
		}
	}
	return n
}

var fullSet = [4]uint64{^uint64(0), ^uint64(0), ^uint64(0), ^uint64(0)}
