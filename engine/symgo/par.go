package symgo

// Two logical threads with nondeterministic, preemption-bounded interleaving at synchronisation
// operations (vPar). Each thread runs in its own goroutine but only one of them runs at any time
// (a baton is passed over channels), so the executor stays single-threaded. A scheduling point
// sits immediately before every synchronisation operation (sync/atomic, Mutex/RWMutex, sync.Pool,
// sync.Map, sync.Once): there the explorer either lets the running thread continue or switches to
// the other one - one more decision of the path, forked and replayed like any branch. For
// data-race-free code (checked separately by the lockset rule) interleaving at synchronisation
// operations is exhaustive up to the preemption bound. Blocking (Lock while the other thread holds
// the lock, RLock while the other holds it exclusively) forces a switch; both threads blocked is a
// deadlock (fault).

type lockState struct {
	writer  int         // thread holding the lock exclusively (0 = none)
	readers map[int]int // thread -> read holds
}

type parState struct {
	resume      [3]chan struct{}
	done        [3]bool
	running     int
	preemptions int
	maxPreempt  int
	abort       interface{} // panic value raised in thread 2, to be re-raised in thread 1's goroutine
	killed      bool
	locks       map[*value]*lockState
	blocked     [3]bool
	points      int
}

func (e *Exec) other(t int) int { return 3 - t }

// yieldTo passes the baton from thread me to the other thread and waits for it to come back.
func (p *parState) yieldTo(e *Exec, me int) {
	o := 3 - me
	p.running = o
	e.thread = o
	p.resume[o] <- struct{}{}
	<-p.resume[me]
	p.running = me
	e.thread = me
	if me == 2 && p.killed {
		panic(pathAbort{"killed", ""})
	}
	if me == 1 && p.abort != nil {
		a := p.abort
		p.abort = nil
		panic(a)
	}
}

// schedPoint is called immediately before a synchronisation operation of the running thread.
func (e *Exec) schedPoint() {
	p := e.par
	if p == nil || p.running == 0 || p.killed {
		return
	}
	me := p.running
	o := 3 - me
	p.points++
	if p.done[o] || p.blocked[o] || p.preemptions >= p.maxPreempt {
		return
	}
	if e.ChooseN(2) == 1 {
		p.preemptions++
		p.yieldTo(e, me)
	}
}

// acquire blocks (switches to the other thread) until the lock can be taken in the given mode.
func (e *Exec) parLock(mu *value, op string) {
	p := e.par
	if p == nil || p.running == 0 || p.killed {
		return
	}
	me := p.running
	o := 3 - me
	ls := p.locks[mu]
	if ls == nil {
		ls = &lockState{readers: map[int]int{}}
		p.locks[mu] = ls
	}
	switch op {
	case "Lock", "RLock":
		for {
			busy := ls.writer == o || (op == "Lock" && ls.readers[o] > 0)
			if !busy {
				break
			}
			if p.done[o] || p.blocked[o] {
				e.fault("deadlock: thread %d waits for a lock held by thread %d which cannot run", me, o)
			}
			p.blocked[me] = true
			p.yieldTo(e, me)
			p.blocked[me] = false
		}
		if op == "Lock" {
			ls.writer = me
		} else {
			ls.readers[me]++
		}
	case "Unlock":
		if ls.writer == me {
			ls.writer = 0
		}
	case "RUnlock":
		if ls.readers[me] > 0 {
			ls.readers[me]--
		}
	}
}

// runPar runs f1 as thread 1 (in the calling goroutine) and f2 as thread 2.
func (e *Exec) runPar(fr *frame, maxPreempt int, f1, f2 value) {
	if e.par != nil {
		e.fault("nested vPar")
	}
	p := &parState{maxPreempt: maxPreempt, locks: map[*value]*lockState{}}
	for i := range p.resume {
		p.resume[i] = make(chan struct{})
	}
	e.par = p
	finished2 := make(chan struct{})
	go func() {
		defer close(finished2)
		<-p.resume[2]
		if p.killed {
			return
		}
		defer func() {
			r := recover()
			p.done[2] = true
			if r != nil {
				if pa, ok := r.(pathAbort); ok && pa.kind == "killed" {
					return
				}
				p.abort = r
			}
			if !p.killed {
				// hand the baton back for good
				p.running = 1
				e.thread = 1
				p.resume[1] <- struct{}{}
			}
		}()
		call(fr.i, nil, 0, f2, nil)
	}()
	started2 := false
	defer func() {
		// leaving vPar (normally or by an abort of the path): make sure thread 2's goroutine is gone
		if !p.done[2] {
			p.killed = true
			p.resume[2] <- struct{}{}
		}
		<-finished2
		e.par = nil
		e.thread = 0
	}()
	p.running = 1
	e.thread = 1
	// which thread starts is a scheduling decision too
	if e.ChooseN(2) == 1 {
		started2 = true
		p.yieldTo(e, 1)
	}
	_ = started2
	call(fr.i, fr, 0, f1, nil)
	p.done[1] = true
	for !p.done[2] {
		if p.blocked[2] {
			// thread 2 waits for a lock: thread 1 is done, so whatever it held must have been released
			p.blocked[2] = false
		}
		p.yieldTo(e, 1)
	}
}
