package symgo

import "time"

// timeParse runs the real time.Parse and returns the instant as seconds since year 1
// (the representation time.Time uses in its ext field when no monotonic reading is present).
func timeParse(layout, value string) (int64, error) {
	t, err := time.Parse(layout, value)
	if err != nil {
		return 0, err
	}
	const unixToInternal = (1969*365 + 1969/4 - 1969/100 + 1969/400) * 86400
	return t.Unix() + unixToInternal, nil
}
