package symgo

// String-keyed maps with symbolic keys. A lookup/update with a symbolic key forks over
// "equals existing key i" / "equals none", instead of enumerating concrete key strings.

import (
	"go/token"
	"reflect"
	"sort"
)

type symMapEntry struct {
	key symStr
	val value
}

func mapID(m map[value]value) uintptr { return reflect.ValueOf(m).Pointer() }

// symMapLookup returns (value, found). key is a symStr.
func symMapLookup(m map[value]value, key symStr) (value, bool) {
	// concrete keys of the same length, in a deterministic order
	var cands []string
	for k := range m {
		if ks, ok := k.(string); ok && len(ks) == len(key) {
			cands = append(cands, ks)
		}
	}
	sort.Strings(cands)
	for _, ks := range cands {
		if branchVal(symStrBinop(token.EQL, key, ks)) {
			return m[ks], true
		}
	}
	if m != nil {
		for _, e := range cur.symMaps[mapID(m)] {
			if len(e.key) == len(key) && branchVal(symStrBinop(token.EQL, key, e.key)) {
				return e.val, true
			}
		}
	}
	return nil, false
}

func symMapUpdate(m map[value]value, key symStr, v value) {
	var cands []string
	for k := range m {
		if ks, ok := k.(string); ok && len(ks) == len(key) {
			cands = append(cands, ks)
		}
	}
	sort.Strings(cands)
	for _, ks := range cands {
		if branchVal(symStrBinop(token.EQL, key, ks)) {
			old := m[ks]
			cur.undoFns = append(cur.undoFns, func() { m[ks] = old })
			m[ks] = v
			return
		}
	}
	id := mapID(m)
	ents := cur.symMaps[id]
	for i, e := range ents {
		if len(e.key) == len(key) && branchVal(symStrBinop(token.EQL, key, e.key)) {
			ents[i].val = v // per-path table: discarded with the Exec
			return
		}
	}
	cur.symMaps[id] = append(ents, symMapEntry{key, v})
}

// symMapExtraLen is the number of symbolic-key entries of m.
func symMapExtraLen(m map[value]value) int {
	if m == nil || cur == nil || len(cur.symMaps) == 0 {
		return 0
	}
	return len(cur.symMaps[mapID(m)])
}
