package symgo

// Access log and lock bookkeeping for the C06 lock-discipline check (filled in later).

func (e *Exec) access(addr *value, write, atomic bool) {}

func (e *Exec) lockOp(mu *value, op string) {
	if e.onLock != nil {
		e.onLock(mu, op)
	}
}

func (e *Exec) enableAccessLog() {}
func (e *Exec) finishAccessLog() {}

func (e *Exec) watchWrite(cells []value) {
	for i := range cells {
		if e.watch[&cells[i]] {
			e.written++
		}
	}
}
