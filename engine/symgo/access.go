package symgo

// Access log and lock bookkeeping for the C06 lock-discipline check.
//
// The executor is single-threaded. A harness runs operation A as "thread 1" and operation B
// as "thread 2" one after the other; every load and store of a memory cell that is not owned
// by the running thread is logged with the thread id, the set of locks held (and their mode)
// and whether the access is atomic. At the end, two accesses of different threads to the same
// cell, at least one a write, are a data race unless both are atomic or a common lock is held
// with at least one side holding it exclusively. This condition does not depend on the
// schedule: it is the sufficient condition for data-race freedom that a lockset analysis checks.

import (
	"fmt"
	"os"
	"sort"
)

type accessRec struct {
	write   bool
	atomic  bool
	thread  int
	locks   map[*value]int // 1 = shared, 2 = exclusive
	pos     string
	section int // critical-section instance (0 = outside any lock)
	seq     int
}

type accessLog struct {
	enabled bool
	recs    map[*value][]accessRec
	maps    map[uintptr][]accessRec
	held    map[int]map[*value]int
	owned   map[*value]int // cell -> owning thread
	ownedMaps map[uintptr]int
	lockOps map[int][]string
	section map[int]int // thread -> current critical-section instance
	nextSec int
	seq     int
}

func (e *Exec) enableAccessLog() {
	e.alog = &accessLog{enabled: true, recs: map[*value][]accessRec{}, maps: map[uintptr][]accessRec{},
		held: map[int]map[*value]int{}, owned: map[*value]int{}, lockOps: map[int][]string{}, section: map[int]int{}}
}

func (e *Exec) lockOp(mu *value, op string) {
	if e.onLock != nil {
		e.onLock(mu, op)
	}
	a := e.alog
	if a == nil || e.thread == 0 {
		return
	}
	h := a.held[e.thread]
	if h == nil {
		h = map[*value]int{}
		a.held[e.thread] = h
	}
	a.lockOps[e.thread] = append(a.lockOps[e.thread], op)
	switch op {
	case "Lock":
		h[mu] = 2
		a.nextSec++
		a.section[e.thread] = a.nextSec
	case "RLock":
		h[mu] = 1
		a.nextSec++
		a.section[e.thread] = a.nextSec
	case "Unlock", "RUnlock":
		delete(h, mu)
		if len(h) == 0 {
			a.section[e.thread] = 0
		}
	}
}

func (e *Exec) snapshotLocks() map[*value]int {
	h := e.alog.held[e.thread]
	if len(h) == 0 {
		return nil
	}
	cp := make(map[*value]int, len(h))
	for k, v := range h {
		cp[k] = v
	}
	return cp
}

func (e *Exec) curPos() string {
	if e.curInstr == nil {
		return "?"
	}
	return e.posStr(e.curInstr.Pos())
}

// access logs a load or store of cell addr by the current thread.
func (e *Exec) access(addr *value, write, atomic bool) {
	a := e.alog
	if a == nil || e.thread == 0 || addr == nil {
		return
	}
	if t, ok := a.owned[addr]; ok && t == e.thread {
		return
	}
	if logZ3 {
		t, ok := a.owned[addr]
		fmt.Fprintf(os.Stderr, "ACCESS T%d write=%v at %s owned=%v/%d nowned=%d\n", e.thread, write, e.curPos(), ok, t, len(a.owned))
	}
	rs := a.recs[addr]
	// keep the log small: one record per (thread, write, atomic, lockset shape) per cell
	locks := e.snapshotLocks()
	sec := a.section[e.thread]
	for _, r := range rs {
		if r.thread == e.thread && r.write == write && r.atomic == atomic && r.section == sec && sameLocks(r.locks, locks) {
			return
		}
	}
	a.seq++
	a.recs[addr] = append(rs, accessRec{write: write, atomic: atomic, thread: e.thread, locks: locks, pos: e.curPos(), section: sec, seq: a.seq})
}

func (e *Exec) accessMap(id uintptr, write bool) {
	a := e.alog
	if a == nil || e.thread == 0 || id == 0 {
		return
	}
	if t, ok := a.ownedMaps[id]; ok && t == e.thread {
		return
	}
	a.maps[id] = append(a.maps[id], accessRec{write: write, thread: e.thread, locks: e.snapshotLocks(), pos: e.curPos()})
}

func sameLocks(a, b map[*value]int) bool {
	if len(a) != len(b) {
		return false
	}
	for k, v := range a {
		if b[k] != v {
			return false
		}
	}
	return true
}

// own marks every cell reachable from v (through pointers, slices, structs, arrays) as owned by the
// current thread: an object obtained from a sync.Pool is exclusively its holder's until it is Put back.
func (e *Exec) own(v value, depth int) {
	if e.alog == nil || e.thread == 0 {
		return
	}
	e.ownRec(v, depth, map[*value]bool{})
}

func (e *Exec) ownRec(v value, depth int, seen map[*value]bool) {
	a := e.alog
	if depth > 8 {
		return
	}
	switch v := v.(type) {
	case *value:
		if v == nil || seen[v] {
			return
		}
		seen[v] = true
		a.owned[v] = e.thread
		e.ownRec(*v, depth+1, seen)
	case []value:
		full := v[:cap(v)]
		for i := range full {
			if !seen[&full[i]] {
				seen[&full[i]] = true
				a.owned[&full[i]] = e.thread
				e.ownRec(full[i], depth+1, seen)
			}
		}
	case structure:
		for i := range v {
			if !seen[&v[i]] {
				seen[&v[i]] = true
				a.owned[&v[i]] = e.thread
				e.ownRec(v[i], depth+1, seen)
			}
		}
	case array:
		for i := range v {
			if !seen[&v[i]] {
				seen[&v[i]] = true
				a.owned[&v[i]] = e.thread
				e.ownRec(v[i], depth+1, seen)
			}
		}
	case iface:
		e.ownRec(v.v, depth+1, seen)
	case map[value]value:
		if v != nil {
			if a.ownedMaps == nil {
				a.ownedMaps = map[uintptr]int{}
			}
			a.ownedMaps[mapID(v)] = e.thread
		}
	}
}

// publish: storing v into a cell that is not owned makes everything reachable from v shared.
func (e *Exec) publish(v value, depth int) {
	a := e.alog
	if a == nil || depth > 6 {
		return
	}
	switch v := v.(type) {
	case *value:
		if v == nil {
			return
		}
		if _, ok := a.owned[v]; ok {
			delete(a.owned, v)
			e.publish(*v, depth+1)
		}
	case []value:
		full := v[:cap(v)]
		for i := range full {
			if _, ok := a.owned[&full[i]]; ok {
				delete(a.owned, &full[i])
				e.publish(full[i], depth+1)
			}
		}
	case structure:
		for i := range v {
			if _, ok := a.owned[&v[i]]; ok {
				delete(a.owned, &v[i])
			}
			e.publish(v[i], depth+1)
		}
	case iface:
		e.publish(v.v, depth+1)
	}
}

// onStoreAccess is called for every store through addr of value v.
func (e *Exec) onStoreAccess(addr *value, v value) {
	a := e.alog
	if a == nil || e.thread == 0 {
		return
	}
	if t, ok := a.owned[addr]; ok && t == e.thread {
		return
	}
	e.access(addr, true, false)
	// storing into a cell this thread does not own makes what v reaches visible to other threads
	e.publish(v, 0)
}

func lockCompatible(x, y accessRec) bool {
	for mu, mx := range x.locks {
		if my, ok := y.locks[mu]; ok && (mx == 2 || my == 2) {
			return true
		}
	}
	return false
}

// finishAccessLog evaluates the race condition over the log and records findings.
func (e *Exec) finishAccessLog() {
	a := e.alog
	if a == nil {
		return
	}
	seen := map[string]bool{}
	check := func(rs []accessRec, what string) {
		for i := range rs {
			for j := i + 1; j < len(rs); j++ {
				x, y := rs[i], rs[j]
				if x.thread == y.thread || (!x.write && !y.write) {
					continue
				}
				if x.atomic && y.atomic {
					continue
				}
				if lockCompatible(x, y) {
					continue
				}
				p := []string{x.pos, y.pos}
				sort.Strings(p)
				key := fmt.Sprintf("%s|%s", p[0], p[1])
				if seen[key] {
					continue
				}
				seen[key] = true
				desc := fmt.Sprintf("data-race %s: %s(%s) vs %s(%s)", what, rw(x), x.pos, rw(y), y.pos)
				e.races = append(e.races, desc)
				e.stats.Obligations++
				e.stats.Violated++
				e.sites[x.pos+"/race"] = true
				e.sites[y.pos+"/race"] = true
				e.recordFinding("race", "data-race:"+key, key, nil)
			}
		}
	}
	for _, rs := range a.recs {
		check(rs, "cell")
	}
	// (A) atomicity of read-modify-write: a thread that writes a shared cell inside an exclusive
	// critical section must not base that write on a read of the same cell made in an earlier,
	// different critical section (or outside any): another writer may have intervened.
	for _, rs := range a.recs {
		for _, w := range rs {
			if !w.write || w.atomic || w.section == 0 {
				continue
			}
			for _, r := range rs {
				if r.write || r.atomic || r.thread != w.thread || r.seq > w.seq || r.section == w.section {
					continue
				}
				key := fmt.Sprintf("%s|%s", r.pos, w.pos)
				if seen["A"+key] {
					continue
				}
				seen["A"+key] = true
				e.races = append(e.races, fmt.Sprintf("stale read-modify-write: read(%s) in section %d, write(%s) in section %d", r.pos, r.section, w.pos, w.section))
				e.stats.Obligations++
				e.stats.Violated++
				e.recordFinding("race", "non-atomic-update:"+key, key, nil)
			}
		}
	}
	for _, rs := range a.maps {
		check(rs, "map")
	}
	e.stats.Obligations++
	if len(e.races) == 0 {
		e.stats.Discharged++
	}
}

func rw(r accessRec) string {
	s := "read"
	if r.write {
		s = "write"
	}
	if r.atomic {
		s = "atomic-" + s
	}
	return fmt.Sprintf("%s@T%d", s, r.thread)
}

func (e *Exec) watchWrite(cells []value) {
	for i := range cells {
		if e.watch[&cells[i]] {
			e.written++
		}
	}
}
