package symgo

// Intrinsics: harness vocabulary, exact models of assembly/unsafe leaf functions,
// and contract stubs for sync, os and time.

import (
	"fmt"
	"go/token"
	"sort"
	"go/types"
	"strings"

	"golang.org/x/tools/go/ssa"
)

// harnessExternals are matched by bare function name in any package.
var harnessExternals = map[string]externalFn{}

// skipInit lists packages whose initialisers are not executed.
var skipInit = map[string]bool{}

func init() {
	for _, p := range []string{
		"runtime", "internal/abi", "internal/cpu", "internal/bytealg", "internal/reflectlite",
		"internal/goarch", "internal/goos", "internal/goexperiment", "internal/race", "internal/runtime/atomic",
		"internal/runtime/exithook", "internal/runtime/syscall", "internal/chacha8rand", "internal/coverage/rtcov",
		"internal/godebugs", "internal/godebug", "internal/profilerecord", "internal/stringslite", "internal/unsafeheader",
		"runtime/internal/math", "runtime/internal/sys", "runtime/internal/atomic", "runtime/internal/syscall",
		"internal/asan", "internal/msan", "internal/byteorder", "internal/itoa", "internal/bisect",
		"sync", "sync/atomic", "reflect", "os", "syscall", "time", "errors", "io/fs", "path", "internal/poll",
		"internal/syscall/unix", "internal/syscall/execenv", "internal/oserror", "internal/testlog", "internal/fmtsort",
		"internal/filepathlite", "unsafe", "internal/weak", "unique", "internal/concurrent", "iter", "math/rand", "math/rand/v2",
		"os/signal", "runtime/debug", "runtime/trace", "runtime/pprof", "testing", "flag", "log", "internal/sysinfo",
		"path/filepath", "regexp", "regexp/syntax", "context", "text/tabwriter", "compress/gzip", "compress/flate", "hash/crc32",
	} {
		skipInit[p] = true
	}

	h := harnessExternals
	h["vBytes"] = func(fr *frame, args []value) value {
		name := args[0].(string)
		lo, hi := int(asInt64(args[1])), int(asInt64(args[2]))
		n := lo + cur.ChooseN(hi-lo+1)
		in := cur.newInput(name, "bytes", 8, n)
		out := make([]value, n)
		for i, t := range in.Terms {
			out[i] = sym{t, types.Uint8}
		}
		return out
	}
	h["vByte"] = func(fr *frame, args []value) value {
		in := cur.newInput(args[0].(string), "byte", 8, 1)
		return sym{in.Terms[0], types.Uint8}
	}
	h["vUint32"] = func(fr *frame, args []value) value {
		in := cur.newInput(args[0].(string), "uint32", 32, 1)
		return sym{in.Terms[0], types.Uint32}
	}
	h["vUint64"] = func(fr *frame, args []value) value {
		in := cur.newInput(args[0].(string), "uint64", 64, 1)
		return sym{in.Terms[0], types.Uint64}
	}
	h["vBool"] = func(fr *frame, args []value) value {
		// a boolean input is a byte restricted to {0,1}, so that decisions on it stay inside the
		// exact finite-domain procedure
		in := cur.newInput(args[0].(string), "bool", 8, 1)
		c := cur.ctx
		cur.addConstraint(c.Cmp(OpUle, in.Terms[0], c.Const(8, 1)))
		return mkSym(c.Eq(in.Terms[0], c.Const(8, 1)), types.Bool)
	}
	h["vInt"] = func(fr *frame, args []value) value {
		lo, hi := asInt64(args[1]), asInt64(args[2])
		in := cur.newInput(args[0].(string), "int", 64, 1)
		t := in.Terms[0]
		c := cur.ctx
		cur.addConstraint(c.Cmp(OpSle, c.Const(64, uint64(lo)), t))
		cur.addConstraint(c.Cmp(OpSle, t, c.Const(64, uint64(hi))))
		return sym{t, types.Int}
	}
	h["vChoice"] = func(fr *frame, args []value) value {
		n := int(asInt64(args[1]))
		name := cur.uniqueName(args[0].(string))
		var ch int
		if fx, ok := cur.fixed[name]; ok {
			if fx >= n {
				cur.abort("assume", "fixed choice out of range")
			}
			ch = fx
		} else {
			ch = cur.ChooseN(n)
		}
		cur.inputs = append(cur.inputs, &inputVar{Name: name, Kind: "choice", Conc: int64(ch)})
		return ch
	}
	h["vAssume"] = func(fr *frame, args []value) value {
		switch c := args[0].(type) {
		case bool:
			if !c {
				cur.abort("assume", "assumption false")
			}
		case sym:
			if cur.feasible(c.t) != Sat {
				cur.abort("assume", "assumption infeasible")
			}
			cur.addConstraint(c.t)
		}
		return nil
	}
	h["vAssert"] = func(fr *frame, args []value) value {
		label := args[1].(string)
		pos := "?"
		if fr.caller != nil {
			pos = fr.caller.fn.Name()
		}
		cur.stats.Reach["assert:"+label]++
		switch c := args[0].(type) {
		case bool:
			cur.Check(cur.ctx.Bool(c), "assert", label, pos)
		case sym:
			cur.Check(c.t, "assert", label, pos)
		}
		return nil
	}
	h["vReach"] = func(fr *frame, args []value) value {
		cur.stats.Reach[args[0].(string)]++
		return nil
	}
	h["vConc"] = func(fr *frame, args []value) value {
		return concretize(args[0])
	}
	h["vConcBytes"] = func(fr *frame, args []value) value {
		b := args[0].([]value)
		for i := range b {
			if isSym(b[i]) {
				b[i] = concretize(b[i])
			}
		}
		return nil
	}
	// vDepthReset / vDepthMax: interpreter call-stack depth relative to the caller (C16)
	h["vDepthReset"] = func(fr *frame, args []value) value { cur.maxDepth = fr.depth; cur.depthBase = fr.depth; return nil }
	h["vDepthMax"] = func(fr *frame, args []value) value { return cur.maxDepth - cur.depthBase }
	// vPar(maxPreempt, f1, f2): run f1 and f2 as two logical threads, interleaved at synchronisation operations
	h["vPar"] = func(fr *frame, args []value) value {
		cur.runPar(fr, int(asInt64(args[0])), args[1], args[2])
		return nil
	}
	h["vThread"] = func(fr *frame, args []value) value {
		cur.thread = int(asInt64(args[0]))
		return nil
	}
	h["vSymbolic"] = func(fr *frame, args []value) value { return true }
	h["vNote"] = func(fr *frame, args []value) value {
		cur.notes = append(cur.notes, args[0].(string)+"="+toString(args[1]))
		return nil
	}
	// vProbe(b, x) []byte: one concrete member of the current path class: the bytes of b followed by the four
	// little-endian bytes of x under a model of the path condition (nil if the solver gives none). Used to look
	// for a concrete witness cheaply before an expensive for-all evaluation.
	h["vProbe"] = func(fr *frame, args []value) value {
		b := args[0].([]value)
		var terms []*Term
		seen := map[*Term]bool{}
		var vars []*Term
		add := func(v value) {
			if sv, ok := v.(sym); ok {
				terms = append(terms, sv.t)
				CollectVars(sv.t, seen, &vars)
			}
		}
		for _, v := range b {
			add(v)
		}
		add(args[1])
		model := map[*Term]uint64{}
		if len(vars) > 0 {
			r, m, _ := cur.solver.Check(cur.allGeneral(), cur.dom, vars)
			if r != Sat {
				return []value(nil)
			}
			model = m
		}
		memo := map[*Term]uint64{}
		conc := func(v value) uint64 {
			if sv, ok := v.(sym); ok {
				return Eval(sv.t, model, memo)
			}
			switch x := v.(type) {
			case uint8:
				return uint64(x)
			case uint32:
				return uint64(x)
			}
			return 0
		}
		out := make([]value, 0, len(b)+4)
		for _, v := range b {
			out = append(out, uint8(conc(v)))
		}
		x := conc(args[1])
		for i := 0; i < 4; i++ {
			out = append(out, uint8(x>>(8*uint(i))))
		}
		return out
	}
	// vSameBytes(a, b) bool: one Bool term for byte-wise equality (no forking)
	h["vSameBytes"] = func(fr *frame, args []value) value {
		a, b := args[0].([]value), args[1].([]value)
		if len(a) != len(b) {
			return false
		}
		return mkSym(bytesEqTerm(a, b), types.Bool)
	}
	// vWatch(b): start recording writes into b's backing cells; vWritten() reports them
	h["vWatch"] = func(fr *frame, args []value) value {
		b := args[0].([]value)
		if cur.watch == nil {
			cur.watch = map[*value]bool{}
		}
		b = b[:cap(b)]
		for i := range b {
			cur.watch[&b[i]] = true
		}
		cur.onStore = func(addr *value) {
			if cur.watch[addr] {
				cur.written++
			}
		}
		return nil
	}
	h["vWritten"] = func(fr *frame, args []value) value { return cur.written }
	// vSpareCap(b, n) []byte: returns b re-backed by an array with n spare symbolic cells after len
	h["vGrowCap"] = func(fr *frame, args []value) value {
		b := args[0].([]value)
		n := int(asInt64(args[1]))
		nb := make([]value, len(b), len(b)+n)
		copy(nb, b)
		ext := nb[:len(b)+n]
		in := cur.newInput(args[2].(string), "bytes", 8, n)
		for i := 0; i < n; i++ {
			ext[len(b)+i] = sym{in.Terms[i], types.Uint8}
		}
		return nb
	}

	for k, v := range map[string]externalFn{
		"internal/bytealg.IndexByte":       extIndexByte,
		"internal/bytealg.IndexByteString": extIndexByte,
		"internal/bytealg.Equal":           extBytesEqual,
		"internal/bytealg.Count":           extCount,
		"internal/bytealg.CountString":     extCount,
		"internal/bytealg.Compare":         extCompare,
		"internal/bytealg.MakeNoZero": func(fr *frame, args []value) value {
			n := int(asInt64(args[0]))
			out := make([]value, n)
			for i := range out {
				out[i] = byte(0)
			}
			return out
		},
		"bytes.Equal":     extBytesEqual,
		"bytes.IndexByte": extIndexByte,
		"internal/stringslite.IndexByte": extIndexByte,
		"(*strings.Builder).String": func(fr *frame, args []value) value {
			st := (*args[0].(*value)).(structure)
			buf, _ := st[1].([]value)
			cp := make([]value, len(buf))
			copy(cp, buf)
			return mkStr(cp)
		},
		"(*strings.Builder).copyCheck": func(fr *frame, args []value) value { return nil },
		"sync/atomic.LoadUint32":      func(fr *frame, args []value) value { cur.schedPoint(); cur.access(args[0].(*value), false, true); return *args[0].(*value) },
		"sync/atomic.StoreUint32": func(fr *frame, args []value) value {
			cur.schedPoint()
			cur.schedPoint()
			p := args[0].(*value)
			cur.access(p, true, true)
			cur.logStore(p)
			*p = args[1]
			return nil
		},
		"sync/atomic.LoadInt32": func(fr *frame, args []value) value { cur.access(args[0].(*value), false, true); return *args[0].(*value) },
		"sync/atomic.AddInt32": func(fr *frame, args []value) value {
			p := args[0].(*value)
			cur.logStore(p)
			*p = binop(token.ADD, types.Typ[types.Int32], *p, args[1])
			return *p
		},
		"sync/atomic.CompareAndSwapInt32": func(fr *frame, args []value) value {
			p := args[0].(*value)
			if equals(types.Typ[types.Int32], *p, args[1]) {
				cur.logStore(p)
				*p = args[2]
				return true
			}
			return false
		},
		"(*sync.Pool).Get": func(fr *frame, args []value) value {
			cur.schedPoint()
			p := args[0].(*value)
			if items := cur.pools[p]; len(items) > 0 {
				it := items[len(items)-1]
				cur.pools[p] = items[:len(items)-1]
				if cur.alog != nil {
					cur.own(it, 0) // exclusive between Get and Put (sync.Pool's contract)
				}
				return it
			}
			st := (*p).(structure)
			newFn := st[len(st)-1]
			if f, ok := newFn.(*ssa.Function); ok && f == nil {
				return iface{}
			}
			it := call(fr.i, fr, 0, newFn, nil)
			if cur.alog != nil {
				cur.own(it, 0)
			}
			return it
		},
		"(*sync.Pool).Put": func(fr *frame, args []value) value {
			p := args[0].(*value)
			if x, ok := args[1].(iface); ok && x.t == nil {
				return nil
			}
			cur.pools[p] = append(cur.pools[p], args[1])
			return nil
		},
		"(*sync.Mutex).Lock": func(fr *frame, args []value) value { cur.schedPoint(); cur.parLock(args[0].(*value), "Lock"); cur.lockOp(args[0].(*value), "Lock"); return nil },
		"(*sync.Mutex).Unlock": func(fr *frame, args []value) value { cur.schedPoint(); cur.parLock(args[0].(*value), "Unlock"); cur.lockOp(args[0].(*value), "Unlock"); return nil },
		"(*sync.RWMutex).Lock": func(fr *frame, args []value) value { cur.schedPoint(); cur.parLock(args[0].(*value), "Lock"); cur.lockOp(args[0].(*value), "Lock"); return nil },
		"(*sync.RWMutex).Unlock": func(fr *frame, args []value) value { cur.schedPoint(); cur.parLock(args[0].(*value), "Unlock"); cur.lockOp(args[0].(*value), "Unlock"); return nil },
		"(*sync.RWMutex).RLock": func(fr *frame, args []value) value { cur.schedPoint(); cur.parLock(args[0].(*value), "RLock"); cur.lockOp(args[0].(*value), "RLock"); return nil },
		"(*sync.RWMutex).RUnlock": func(fr *frame, args []value) value { cur.schedPoint(); cur.parLock(args[0].(*value), "RUnlock"); cur.lockOp(args[0].(*value), "RUnlock"); return nil },
		"(*sync.Once).Do": func(fr *frame, args []value) value {
			p := args[0].(*value)
			if cur.onceDone[p] {
				return nil
			}
			cur.onceDone[p] = true
			call(fr.i, fr, 0, args[1], nil)
			return nil
		},
		"(*sync.Once).doSlow": func(fr *frame, args []value) value {
			call(fr.i, fr, 0, args[1], nil)
			return nil
		},
		"runtime.KeepAlive":    func(fr *frame, args []value) value { return nil },
		"runtime.SetFinalizer": func(fr *frame, args []value) value { return nil },
		"internal/race.Acquire": func(fr *frame, args []value) value { return nil },
		"internal/godebug.New": func(fr *frame, args []value) value {
			return zero(fr.fn.Signature.Results().At(0).Type())
		},
		"(*internal/godebug.Setting).Value":        func(fr *frame, args []value) value { return "" },
		"(*internal/godebug.Setting).IncNonDefault": func(fr *frame, args []value) value { return nil },
		"errors.New": nil,
	} {
		if v == nil {
			delete(externals, k)
			continue
		}
		externals[k] = v
	}
	// These interp externals would bypass the real library code or mis-handle symbolic bytes.
	for _, k := range []string{"strings.Count", "strings.EqualFold", "strings.Index", "strings.IndexByte",
		"strings.Replace", "strings.ToLower", "unicode/utf8.DecodeRuneInString", "fmt.Sprint", "strconv.Atoi",
		"strconv.Itoa", "sort.Ints", "sort.Strings", "sort.Float64s", "os.Exit", "os.Getenv", "time.Sleep"} {
		delete(externals, k)
	}
}


func byteSeq(v value) []value {
	switch v := v.(type) {
	case []value:
		return v
	case string, symStr:
		return strBytes(v)
	}
	panic(fmt.Sprintf("byteSeq: %T", v))
}

// extIndexByte: first index of c in s, deciding each symbolic comparison by a branch.
func extIndexByte(fr *frame, args []value) value {
	s := byteSeq(args[0])
	c := args[1]
	for i, b := range s {
		if !isSym(b) && !isSym(c) {
			if b.(byte) == c.(byte) {
				return i
			}
			continue
		}
		if cur.Branch(cur.ctx.Eq(termOf(b), termOf(c))) {
			return i
		}
	}
	return -1
}

func extBytesEqual(fr *frame, args []value) value {
	a, b := byteSeq(args[0]), byteSeq(args[1])
	if len(a) != len(b) {
		return false
	}
	return mkSym(bytesEqTerm(a, b), types.Bool)
}

func extCount(fr *frame, args []value) value {
	s := byteSeq(args[0])
	c := args[1]
	n := 0
	for _, b := range s {
		if !isSym(b) && !isSym(c) {
			if b.(byte) == c.(byte) {
				n++
			}
			continue
		}
		if cur.Branch(cur.ctx.Eq(termOf(b), termOf(c))) {
			n++
		}
	}
	return n
}

func extCompare(fr *frame, args []value) value {
	a, b := byteSeq(args[0]), byteSeq(args[1])
	n := len(a)
	if len(b) < n {
		n = len(b)
	}
	for i := 0; i < n; i++ {
		ta, tb := termOf(a[i]), termOf(b[i])
		if cur.Branch(cur.ctx.Eq(ta, tb)) {
			continue
		}
		if cur.Branch(cur.ctx.Cmp(OpUlt, ta, tb)) {
			return -1
		}
		return 1
	}
	switch {
	case len(a) < len(b):
		return -1
	case len(a) > len(b):
		return 1
	}
	return 0
}

func isHarnessFn(fn *ssa.Function) externalFn {
	if fn.Parent() != nil || fn.Pkg == nil || fn.Signature.Recv() != nil {
		return nil
	}
	name := fn.Name()
	if !strings.HasPrefix(name, "v") {
		return nil
	}
	return harnessExternals[name]
}

func init() {
	externals["errors.Is"] = func(fr *frame, args []value) value {
		return errorsIs(fr, args[0].(iface), args[1].(iface), 0)
	}
}

func errorsIs(fr *frame, err, target iface, depth int) bool {
	if err.t == nil || target.t == nil {
		return err.t == nil && target.t == nil
	}
	if depth > 100 {
		cur.fault("errors.Is: chain too deep")
	}
	comparable := types.Comparable(target.t)
	for {
		if comparable && types.Identical(err.t, target.t) && equals(err.t, err.v, target.v) {
			return true
		}
		if m := lookupMethodOpt(fr.i, err.t, "Is"); m != nil && m.Signature.Params().Len() == 1 && m.Signature.Results().Len() == 1 {
			if r, ok := call(fr.i, fr, 0, m, []value{err.v, target}).(bool); ok && r {
				return true
			}
		}
		m := lookupMethodOpt(fr.i, err.t, "Unwrap")
		if m == nil || m.Signature.Params().Len() != 0 || m.Signature.Results().Len() != 1 {
			return false
		}
		switch r := call(fr.i, fr, 0, m, []value{err.v}).(type) {
		case iface:
			if r.t == nil {
				return false
			}
			err = r
		case []value:
			for _, e := range r {
				if errorsIs(fr, e.(iface), target, depth+1) {
					return true
				}
			}
			return false
		default:
			return false
		}
	}
}

// sliceData is the result of unsafe.SliceData / unsafe.StringData: a pointer to the
// first element that still knows its sequence.
type sliceData struct{ b []value }

func init() {
	externals["internal/stringslite.Clone"] = func(fr *frame, args []value) value { return args[0] }
	externals["strings.Clone"] = func(fr *frame, args []value) value { return args[0] }
	// time.Parse: executed natively on concrete strings; on symbolic strings it is a contract stub
	// returning either an error or a Time whose instant is a fresh symbolic value.
	externals["time.Parse"] = func(fr *frame, args []value) value {
		tt := fr.fn.Signature.Results().At(0).Type()
		zt := zero(tt).(structure)
		layout, lok := args[0].(string)
		val, vok := args[1].(string)
		if lok && vok {
			t, err := timeParse(layout, val)
			if err != nil {
				return tuple{zt, iface{fr.i.runtimeErrorString, "time.Parse: " + err.Error()}}
			}
			zt[0] = uint64(0)
			zt[1] = t
			return tuple{zt, iface{}}
		}
		cur.stubsUsed["time.Parse(symbolic)"] = true
		if cur.ChooseN(2) == 0 {
			return tuple{zt, iface{fr.i.runtimeErrorString, "time.Parse: stub error"}}
		}
		in := cur.newInput("stub.time.Parse", "int", 64, 1)
		c := cur.ctx
		cur.addConstraint(c.Cmp(OpSle, c.Const(64, 0), in.Terms[0]))
		cur.addConstraint(c.Cmp(OpSle, in.Terms[0], c.Const(64, 1<<40)))
		zt[0] = uint64(0)
		zt[1] = sym{in.Terms[0], types.Int64}
		return tuple{zt, iface{}}
	}
}

func lookupMethodOpt(i *interpreter, t types.Type, name string) *ssa.Function {
	sel := i.prog.MethodSets.MethodSet(t).Lookup(nil, name)
	if sel == nil {
		return nil
	}
	return i.prog.MethodValue(sel)
}

// extIndex is the exact first-match semantics of bytes.Index / strings.Index: position i is
// tried only after positions < i were decided not to match; each decision is a branch on
// one Bool term (a conjunction of byte equalities), so no hashing (Rabin-Karp) is encoded.
func extIndex(fr *frame, args []value) value {
	s, sep := byteSeq(args[0]), byteSeq(args[1])
	n := len(sep)
	if n == 0 {
		return 0
	}
	for i := 0; i+n <= len(s); i++ {
		m := bytesEqTermSeq(s[i:i+n], sep)
		if m.IsConst() {
			if m.Val != 0 {
				return i
			}
			continue
		}
		if cur.Branch(m) {
			return i
		}
	}
	return -1
}

// bytesEqTermSeq is bytesEqTerm for operands where both sides may be symbolic.
func bytesEqTermSeq(a, b []value) *Term { return bytesEqTerm(a, b) }

func init() {
	externals["bytes.Index"] = extIndex
	externals["strings.Index"] = extIndex
	externals["internal/bytealg.Index"] = extIndex
	externals["internal/bytealg.IndexString"] = extIndex
	externals["internal/stringslite.Index"] = extIndex
}

// extContains: bytes.Contains / strings.Contains as one Bool term (a disjunction over the
// positions of conjunctions of byte equalities): exact, and no path is forked.
func extContains(fr *frame, args []value) value {
	s, sep := byteSeq(args[0]), byteSeq(args[1])
	n := len(sep)
	if n == 0 {
		return true
	}
	c := cur.ctx
	r := c.False
	for i := 0; i+n <= len(s); i++ {
		r = c.Or(r, bytesEqTerm(s[i:i+n], sep))
		if r.IsConst() && r.Val == 1 {
			return true
		}
	}
	return mkSym(r, types.Bool)
}

func init() {
	externals["bytes.Contains"] = extContains
	externals["strings.Contains"] = extContains
}

// os.Open / (*os.File).Read / Close: contract stub for DetectFile. The harness registers the
// reader that stands for the file's contents with vFileReader; Open succeeds or fails with an
// arbitrary error by nondeterministic choice.
func init() {
	harnessExternals["vFileReader"] = func(fr *frame, args []value) value {
		cur.fileReader = args[0]
		return nil
	}
	externals["os.Open"] = func(fr *frame, args []value) value {
		cur.stubsUsed["os.Open/(*os.File).Read/Close"] = true
		res := fr.fn.Signature.Results()
		if cur.fileReader == nil || cur.ChooseN(2) == 1 {
			return tuple{zero(res.At(0).Type()), iface{fr.i.runtimeErrorString, "open: stub error"}}
		}
		cell := zero(mustDeref(res.At(0).Type()))
		return tuple{&cell, iface{}}
	}
	externals["(*os.File).Read"] = func(fr *frame, args []value) value {
		rd := cur.fileReader.(iface)
		m := lookupMethodOpt(fr.i, rd.t, "Read")
		return call(fr.i, fr, 0, m, []value{rd.v, args[1]})
	}
	externals["(*os.File).Close"] = func(fr *frame, args []value) value {
		cur.fileClosed++
		return iface{}
	}
	harnessExternals["vFileClosed"] = func(fr *frame, args []value) value { return cur.fileClosed }
	// (*os.File).Stat / os.Stat / os.Lstat: the harness registers an fs.FileInfo describing the modelled
	// file (vFileInfo); Stat returns it, or fails with an arbitrary error (nondeterministic choice).
	harnessExternals["vFileInfo"] = func(fr *frame, args []value) value {
		cur.fileInfo = args[0]
		return nil
	}
	stat := func(fr *frame, args []value) value {
		cur.stubsUsed["os.Stat/(*os.File).Stat"] = true
		if cur.fileInfo == nil || cur.ChooseN(2) == 1 {
			return tuple{iface{}, iface{fr.i.runtimeErrorString, "stat: stub error"}}
		}
		return tuple{cur.fileInfo, iface{}}
	}
	externals["(*os.File).Stat"] = stat
	externals["os.Stat"] = stat
	externals["os.Lstat"] = stat
}

// sync/atomic: the remaining Load/Store/Swap/CompareAndSwap/Add functions on a cell (the executor is
// single-threaded, so every operation is trivially atomic; the access log records them as atomic).
func init() {
	type kind struct {
		name string
		t    types.Type
	}
	kinds := []kind{{"Int32", types.Typ[types.Int32]}, {"Int64", types.Typ[types.Int64]}, {"Uint32", types.Typ[types.Uint32]},
		{"Uint64", types.Typ[types.Uint64]}, {"Uintptr", types.Typ[types.Uintptr]}, {"Pointer", types.Typ[types.UnsafePointer]}}
	for _, k := range kinds {
		k := k
		set := func(name string, f func(fr *frame, args []value) value) {
			if _, ok := externals[name]; !ok {
				externals[name] = f
			}
		}
		set("sync/atomic.Load"+k.name, func(fr *frame, args []value) value {
			cur.schedPoint()
			p := args[0].(*value)
			cur.access(p, false, true)
			return *p
		})
		set("sync/atomic.Store"+k.name, func(fr *frame, args []value) value {
			cur.schedPoint()
			p := args[0].(*value)
			cur.access(p, true, true)
			cur.logStore(p)
			*p = args[1]
			return nil
		})
		set("sync/atomic.Swap"+k.name, func(fr *frame, args []value) value {
			cur.schedPoint()
			p := args[0].(*value)
			cur.access(p, true, true)
			old := *p
			cur.logStore(p)
			*p = args[1]
			return old
		})
		set("sync/atomic.CompareAndSwap"+k.name, func(fr *frame, args []value) value {
			cur.schedPoint()
			p := args[0].(*value)
			cur.access(p, true, true)
			if equals(k.t, *p, args[1]) {
				cur.logStore(p)
				*p = args[2]
				return true
			}
			return false
		})
		if k.name != "Pointer" {
			set("sync/atomic.Add"+k.name, func(fr *frame, args []value) value {
				p := args[0].(*value)
				cur.access(p, true, true)
				cur.logStore(p)
				*p = binop(token.ADD, k.t, *p, args[1])
				return *p
			})
		}
	}
	// atomic.Value: struct{ v any }
	valCell := func(a value) *value { return &(*a.(*value)).(structure)[0] }
	externals["(*sync/atomic.Value).Load"] = func(fr *frame, args []value) value {
		cur.schedPoint()
		c := valCell(args[0])
		cur.access(args[0].(*value), false, true)
		if it, ok := (*c).(iface); ok {
			return it
		}
		return iface{}
	}
	externals["(*sync/atomic.Value).Store"] = func(fr *frame, args []value) value {
		cur.schedPoint()
		cur.access(args[0].(*value), true, true)
		c := valCell(args[0])
		cur.logStore(c)
		*c = args[1]
		return nil
	}
	externals["(*sync/atomic.Value).Swap"] = func(fr *frame, args []value) value {
		cur.schedPoint()
		cur.access(args[0].(*value), true, true)
		c := valCell(args[0])
		old := *c
		cur.logStore(c)
		*c = args[1]
		if it, ok := old.(iface); ok {
			return it
		}
		return iface{}
	}
}

// sync.Map: contract model as a per-path table (keys are concretised), so that caches a change
// may introduce are executed rather than faulting inside sync/atomic's unsafe pointer code.
type syncMapKey struct {
	t string
	v interface{}
}

func smKey(k value) syncMapKey {
	it, ok := k.(iface)
	if !ok {
		return syncMapKey{"?", fmt.Sprint(k)}
	}
	v := concKey(it.v)
	switch v.(type) {
	case string, bool, int, int8, int16, int32, int64, uint, uint8, uint16, uint32, uint64, uintptr, *value:
		return syncMapKey{fmt.Sprint(it.t), v}
	}
	return syncMapKey{fmt.Sprint(it.t), fmt.Sprintf("%v", v)}
}

func init() {
	tbl := func(p *value) map[syncMapKey][2]value {
		if cur.syncMaps == nil {
			cur.syncMaps = map[*value]map[syncMapKey][2]value{}
		}
		m := cur.syncMaps[p]
		if m == nil {
			m = map[syncMapKey][2]value{}
			cur.syncMaps[p] = m
		}
		return m
	}
	externals["(*sync.Map).Load"] = func(fr *frame, args []value) value {
		cur.schedPoint()
		cur.stubsUsed["sync.Map"] = true
		if e, ok := tbl(args[0].(*value))[smKey(args[1])]; ok {
			return tuple{e[1], true}
		}
		return tuple{iface{}, false}
	}
	externals["(*sync.Map).Store"] = func(fr *frame, args []value) value {
		cur.schedPoint()
		cur.stubsUsed["sync.Map"] = true
		tbl(args[0].(*value))[smKey(args[1])] = [2]value{args[1], args[2]}
		return nil
	}
	externals["(*sync.Map).LoadOrStore"] = func(fr *frame, args []value) value {
		cur.schedPoint()
		cur.stubsUsed["sync.Map"] = true
		m := tbl(args[0].(*value))
		k := smKey(args[1])
		if e, ok := m[k]; ok {
			return tuple{e[1], true}
		}
		m[k] = [2]value{args[1], args[2]}
		return tuple{args[2], false}
	}
	externals["(*sync.Map).Delete"] = func(fr *frame, args []value) value {
		cur.schedPoint()
		delete(tbl(args[0].(*value)), smKey(args[1]))
		return nil
	}
	externals["(*sync.Map).LoadAndDelete"] = func(fr *frame, args []value) value {
		cur.schedPoint()
		m := tbl(args[0].(*value))
		k := smKey(args[1])
		if e, ok := m[k]; ok {
			delete(m, k)
			return tuple{e[1], true}
		}
		return tuple{iface{}, false}
	}
	externals["(*sync.Map).Range"] = func(fr *frame, args []value) value {
		cur.schedPoint()
		m := tbl(args[0].(*value))
		keys := make([]string, 0, len(m))
		byS := map[string]syncMapKey{}
		for k := range m {
			s := fmt.Sprint(k)
			keys = append(keys, s)
			byS[s] = k
		}
		sort.Strings(keys)
		for _, s := range keys {
			e := m[byS[s]]
			if r, ok := call(fr.i, fr, 0, args[1], []value{e[0], e[1]}).(bool); ok && !r {
				break
			}
		}
		return nil
	}
}
