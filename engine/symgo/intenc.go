package symgo

// Integer re-encoding of bit-vector queries (DESIGN 2.3.3 / A.6). Every bit-vector term gets
// an unsigned reading U(t) and, where needed, a signed reading S(t) as mathematical integers,
// together with an interval. An operation is emitted as plain integer arithmetic only when
// the interval analysis proves that it cannot wrap at its Go width; otherwise `mod 2^w` is
// used, and constructs without an integer counterpart make the encoder give up (the query then
// stays a bit-vector query). Used for long sum chains (tar checksums), where bit-blasting
// back ends do not terminate.

import (
	"fmt"
	"math/big"
	"strings"
)

type iexpr struct {
	name   string
	lo, hi *big.Int
}

type intEnc struct {
	sb    *strings.Builder
	n     int
	doms  map[*Term]*[4]uint64
	u, s  map[*Term]*iexpr
	b     map[*Term]string
	vars  map[*Term]bool
	fail  string
	order []*Term
	aux   strings.Builder
	auxAsserts []string
}

func newIntEnc(sb *strings.Builder, doms map[*Term]*[4]uint64) *intEnc {
	return &intEnc{sb: sb, doms: doms, u: map[*Term]*iexpr{}, s: map[*Term]*iexpr{}, b: map[*Term]string{}, vars: map[*Term]bool{}}
}

func pow2(w uint) *big.Int { return new(big.Int).Lsh(big.NewInt(1), w) }

func ilit(x *big.Int) string {
	if x.Sign() < 0 {
		return "(- " + new(big.Int).Neg(x).String() + ")"
	}
	return x.String()
}

func (e *intEnc) def(expr string, lo, hi *big.Int) *iexpr {
	name := fmt.Sprintf("i!%d", e.n)
	e.n++
	fmt.Fprintf(e.sb, "(define-fun %s () Int %s)\n", name, expr)
	return &iexpr{name, lo, hi}
}

func (e *intEnc) defB(expr string) string {
	name := fmt.Sprintf("p!%d", e.n)
	e.n++
	fmt.Fprintf(e.sb, "(define-fun %s () Bool %s)\n", name, expr)
	return name
}

func (e *intEnc) constant(v *big.Int) *iexpr { return &iexpr{ilit(v), v, v} }

func fits(hi *big.Int, w uint8) bool { return hi.Cmp(pow2(uint(w))) < 0 }

// tz returns a lower bound on the number of trailing zero bits of t.
func tz(t *Term) uint {
	switch t.Op {
	case OpConst:
		if t.Val == 0 {
			return uint(t.W)
		}
		n := uint(0)
		for v := t.Val; v&1 == 0; v >>= 1 {
			n++
		}
		return n
	case OpShl:
		if t.Args[1].IsConst() {
			return tz(t.Args[0]) + uint(t.Args[1].Val)
		}
	case OpZExt, OpSExt:
		return tz(t.Args[0])
	case OpOr, OpAdd:
		a, b := tz(t.Args[0]), tz(t.Args[1])
		if a < b {
			return a
		}
		return b
	}
	return 0
}

// U returns the unsigned reading of bit-vector term t.
func (e *intEnc) U(t *Term) *iexpr {
	if e.fail != "" {
		return &iexpr{"0", big.NewInt(0), big.NewInt(0)}
	}
	if r, ok := e.u[t]; ok {
		return r
	}
	r := e.computeU(t)
	e.u[t] = r
	return r
}

func (e *intEnc) giveUp(why string) *iexpr {
	if e.fail == "" {
		e.fail = why
	}
	return &iexpr{"0", big.NewInt(0), big.NewInt(0)}
}

func (e *intEnc) fromSigned(s *iexpr, w uint8) *iexpr {
	if s.lo.Sign() >= 0 {
		return s
	}
	m := pow2(uint(w))
	if s.hi.Sign() < 0 {
		return e.def(fmt.Sprintf("(+ %s %s)", s.name, m), new(big.Int).Add(s.lo, m), new(big.Int).Add(s.hi, m))
	}
	return e.def(fmt.Sprintf("(ite (< %s 0) (+ %s %s) %s)", s.name, s.name, m, s.name), big.NewInt(0), new(big.Int).Sub(m, big.NewInt(1)))
}

func (e *intEnc) modW(x *iexpr, w uint8) *iexpr {
	if x.lo.Sign() >= 0 && fits(x.hi, w) {
		return x
	}
	m := pow2(uint(w))
	return e.def(fmt.Sprintf("(mod %s %s)", x.name, m), big.NewInt(0), new(big.Int).Sub(m, big.NewInt(1)))
}

func (e *intEnc) computeU(t *Term) *iexpr {
	w := t.W
	switch t.Op {
	case OpConst:
		return e.constant(new(big.Int).SetUint64(t.Val))
	case OpVar:
		if !e.vars[t] {
			e.vars[t] = true
			e.order = append(e.order, t)
		}
		lo, hi := big.NewInt(0), new(big.Int).Sub(pow2(uint(w)), big.NewInt(1))
		if d, ok := e.doms[t]; ok && w == 8 {
			l, h := -1, -1
			for x := 0; x < 256; x++ {
				if setHas(d, x) {
					if l < 0 {
						l = x
					}
					h = x
				}
			}
			if l >= 0 {
				lo, hi = big.NewInt(int64(l)), big.NewInt(int64(h))
			}
		}
		return &iexpr{intVarName(t), lo, hi}
	case OpZExt:
		return e.U(t.Args[0])
	case OpSExt:
		return e.fromSigned(e.S(t.Args[0]), w)
	case OpExtract:
		return e.modW(e.U(t.Args[0]), w)
	case OpAdd:
		a, b := t.Args[0], t.Args[1]
		// x + (2^w - c)  is  x - c
		if b.IsConst() && b.Val >= uint64(1)<<(w-1) && w <= 64 {
			c := new(big.Int).Sub(pow2(uint(w)), new(big.Int).SetUint64(b.Val))
			ua := e.U(a)
			if ua.lo.Cmp(c) >= 0 {
				return e.def(fmt.Sprintf("(- %s %s)", ua.name, c), new(big.Int).Sub(ua.lo, c), new(big.Int).Sub(ua.hi, c))
			}
			return e.modW(e.def(fmt.Sprintf("(- %s %s)", ua.name, c), new(big.Int).Sub(ua.lo, c), new(big.Int).Sub(ua.hi, c)), w)
		}
		ua, ub := e.U(a), e.U(b)
		hi := new(big.Int).Add(ua.hi, ub.hi)
		lo := new(big.Int).Add(ua.lo, ub.lo)
		if fits(hi, w) {
			return e.def(fmt.Sprintf("(+ %s %s)", ua.name, ub.name), lo, hi)
		}
		// try the signed reading (sums of sign-extended bytes)
		sa, sb := e.S(a), e.S(b)
		slo, shi := new(big.Int).Add(sa.lo, sb.lo), new(big.Int).Add(sa.hi, sb.hi)
		half := pow2(uint(w) - 1)
		if slo.Cmp(new(big.Int).Neg(half)) >= 0 && shi.Cmp(half) < 0 {
			s := e.def(fmt.Sprintf("(+ %s %s)", sa.name, sb.name), slo, shi)
			e.s[t] = s
			return e.fromSigned(s, w)
		}
		return e.modW(e.def(fmt.Sprintf("(+ %s %s)", ua.name, ub.name), lo, hi), w)
	case OpSub:
		ua, ub := e.U(t.Args[0]), e.U(t.Args[1])
		lo, hi := new(big.Int).Sub(ua.lo, ub.hi), new(big.Int).Sub(ua.hi, ub.lo)
		return e.modW(e.def(fmt.Sprintf("(- %s %s)", ua.name, ub.name), lo, hi), w)
	case OpMul:
		if t.Args[1].IsConst() {
			ua := e.U(t.Args[0])
			c := new(big.Int).SetUint64(t.Args[1].Val)
			return e.modW(e.def(fmt.Sprintf("(* %s %s)", ua.name, c), new(big.Int).Mul(ua.lo, c), new(big.Int).Mul(ua.hi, c)), w)
		}
		return e.giveUp("multiplication of two symbolic values")
	case OpShl:
		if t.Args[1].IsConst() {
			ua := e.U(t.Args[0])
			c := pow2(uint(t.Args[1].Val))
			return e.modW(e.def(fmt.Sprintf("(* %s %s)", ua.name, c), new(big.Int).Mul(ua.lo, c), new(big.Int).Mul(ua.hi, c)), w)
		}
		return e.giveUp("shift by a symbolic amount")
	case OpLShr:
		if t.Args[1].IsConst() {
			ua := e.U(t.Args[0])
			c := pow2(uint(t.Args[1].Val))
			return e.def(fmt.Sprintf("(div %s %s)", ua.name, c), new(big.Int).Div(ua.lo, c), new(big.Int).Div(ua.hi, c))
		}
		return e.giveUp("shift by a symbolic amount")
	case OpAnd:
		if t.Args[1].IsConst() {
			m := t.Args[1].Val
			if m&(m+1) == 0 { // 2^k - 1
				ua := e.U(t.Args[0])
				mod := new(big.Int).SetUint64(m + 1)
				if ua.hi.Cmp(mod) < 0 {
					return ua
				}
				return e.def(fmt.Sprintf("(mod %s %s)", ua.name, mod), big.NewInt(0), new(big.Int).SetUint64(m))
			}
		}
		return e.giveUp("bitwise and with a non-mask")
	case OpOr:
		a, b := t.Args[0], t.Args[1]
		ua, ub := e.U(a), e.U(b)
		if tz(a) >= uint(ub.hi.BitLen()) || tz(b) >= uint(ua.hi.BitLen()) {
			return e.def(fmt.Sprintf("(+ %s %s)", ua.name, ub.name), new(big.Int).Add(ua.lo, ub.lo), new(big.Int).Add(ua.hi, ub.hi))
		}
		return e.giveUp("bitwise or of overlapping values")
	case OpIte:
		c := e.B(t.Args[0])
		ua, ub := e.U(t.Args[1]), e.U(t.Args[2])
		lo, hi := ua.lo, ua.hi
		if ub.lo.Cmp(lo) < 0 {
			lo = ub.lo
		}
		if ub.hi.Cmp(hi) > 0 {
			hi = ub.hi
		}
		return e.def(fmt.Sprintf("(ite %s %s %s)", c, ua.name, ub.name), lo, hi)
	}
	return e.giveUp("operator " + opNames[t.Op])
}

// S returns the signed reading of t.
func (e *intEnc) S(t *Term) *iexpr {
	if r, ok := e.s[t]; ok {
		return r
	}
	var r *iexpr
	switch t.Op {
	case OpSExt:
		r = e.S(t.Args[0])
	case OpConst:
		r = e.constant(big.NewInt(sext64(t.Val, t.W)))
	default:
		u := e.U(t)
		if r2, ok := e.s[t]; ok { // computeU may have produced the signed reading
			return r2
		}
		half := pow2(uint(t.W) - 1)
		m := pow2(uint(t.W))
		if u.hi.Cmp(half) < 0 {
			r = u
		} else if u.lo.Cmp(half) >= 0 {
			r = e.def(fmt.Sprintf("(- %s %s)", u.name, m), new(big.Int).Sub(u.lo, m), new(big.Int).Sub(u.hi, m))
		} else {
			// signed reading = u - 2^w * hb with a 0/1 integer hb = [u >= 2^(w-1)]: keeps long sums of
			// sign-extended bytes linear (an ite per summand makes the solver case-split on each)
			hb := fmt.Sprintf("hb!%d", e.n)
			e.n++
			fmt.Fprintf(&e.aux, "(declare-const %s Int)\n(assert (and (<= 0 %s) (<= %s 1)))\n", hb, hb, hb)
			e.auxAsserts = append(e.auxAsserts, fmt.Sprintf("(= (>= %s %s) (= %s 1))", u.name, half, hb))
			r = e.def(fmt.Sprintf("(- %s (* %s %s))", u.name, m, hb), new(big.Int).Neg(half), new(big.Int).Sub(half, big.NewInt(1)))
		}
	}
	e.s[t] = r
	return r
}

// B returns the name of Bool term t.
func (e *intEnc) B(t *Term) string {
	if r, ok := e.b[t]; ok {
		return r
	}
	var r string
	switch t.Op {
	case OpConst:
		if t.Val != 0 {
			r = "true"
		} else {
			r = "false"
		}
	case OpVar:
		if !e.vars[t] {
			e.vars[t] = true
			e.order = append(e.order, t)
		}
		r = intVarName(t)
	case OpNot:
		r = e.defB("(not " + e.B(t.Args[0]) + ")")
	case OpBAnd:
		r = e.defB("(and " + e.B(t.Args[0]) + " " + e.B(t.Args[1]) + ")")
	case OpBOr:
		r = e.defB("(or " + e.B(t.Args[0]) + " " + e.B(t.Args[1]) + ")")
	case OpIte:
		r = e.defB("(ite " + e.B(t.Args[0]) + " " + e.B(t.Args[1]) + " " + e.B(t.Args[2]) + ")")
	case OpEq:
		if t.Args[0].W == 0 {
			r = e.defB("(= " + e.B(t.Args[0]) + " " + e.B(t.Args[1]) + ")")
		} else {
			r = e.defB("(= " + e.U(t.Args[0]).name + " " + e.U(t.Args[1]).name + ")")
		}
	case OpUlt:
		r = e.defB("(< " + e.U(t.Args[0]).name + " " + e.U(t.Args[1]).name + ")")
	case OpUle:
		r = e.defB("(<= " + e.U(t.Args[0]).name + " " + e.U(t.Args[1]).name + ")")
	case OpSlt:
		r = e.defB("(< " + e.S(t.Args[0]).name + " " + e.S(t.Args[1]).name + ")")
	case OpSle:
		r = e.defB("(<= " + e.S(t.Args[0]).name + " " + e.S(t.Args[1]).name + ")")
	default:
		e.giveUp("boolean operator " + opNames[t.Op])
		r = "false"
	}
	e.b[t] = r
	return r
}

func intVarName(t *Term) string { return t.Name }

// addNodes counts addition nodes (a proxy for "this query contains long sums").
func addNodes(ts []*Term) int {
	seen := map[*Term]bool{}
	n := 0
	var walk func(t *Term)
	walk = func(t *Term) {
		if seen[t] || t.nvars == 0 {
			return
		}
		seen[t] = true
		if t.Op == OpAdd {
			n++
		}
		for _, a := range t.Args {
			walk(a)
		}
	}
	for _, t := range ts {
		walk(t)
	}
	return n
}

// intScript renders the query over Int, or returns ok=false if some construct has no integer counterpart.
func intScript(cons []*Term, doms map[*Term]*[4]uint64, extraVars []*Term) (script string, vars []*Term, ok bool, why string) {
	var body strings.Builder
	e := newIntEnc(&body, doms)
	var asserts []string
	for _, c := range cons {
		asserts = append(asserts, e.B(c))
	}
	for _, v := range extraVars {
		if v.W == 0 {
			e.B(v)
		} else {
			e.U(v)
		}
	}
	if e.fail != "" {
		return "", nil, false, e.fail
	}
	var sb strings.Builder
	sb.WriteString("(reset)\n(set-option :produce-models true)\n")
	for _, v := range e.order {
		if v.W == 0 {
			fmt.Fprintf(&sb, "(declare-const %s Bool)\n", v.Name)
			continue
		}
		fmt.Fprintf(&sb, "(declare-const %s Int)\n", v.Name)
		// domain: exact for bytes, range otherwise
		if d, okd := doms[v]; okd && v.W == 8 {
			var parts []string
			x := 0
			for x < 256 {
				if !setHas(d, x) {
					x++
					continue
				}
				lo := x
				for x < 256 && setHas(d, x) {
					x++
				}
				parts = append(parts, fmt.Sprintf("(and (<= %d %s) (<= %s %d))", lo, v.Name, v.Name, x-1))
			}
			if len(parts) == 1 {
				fmt.Fprintf(&sb, "(assert %s)\n", parts[0])
			} else {
				fmt.Fprintf(&sb, "(assert (or %s))\n", strings.Join(parts, " "))
			}
		} else {
			fmt.Fprintf(&sb, "(assert (and (<= 0 %s) (< %s %s)))\n", v.Name, v.Name, pow2(uint(v.W)))
		}
	}
	sb.WriteString(e.aux.String())
	sb.WriteString(body.String())
	for _, a := range e.auxAsserts {
		fmt.Fprintf(&sb, "(assert %s)\n", a)
	}
	for _, a := range asserts {
		fmt.Fprintf(&sb, "(assert %s)\n", a)
	}
	sb.WriteString("(check-sat)\n")
	return sb.String(), e.order, true, ""
}
