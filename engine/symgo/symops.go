package symgo

// Symbolic scalars and strings inside the interpreter's value model.

import (
	"fmt"
	"go/token"
	"go/types"
)

// sym is a symbolic scalar of Go basic kind k (Bool, Int..Uintptr).
type sym struct {
	t *Term
	k types.BasicKind
}

// symStr is a string at least one of whose bytes is symbolic. Elements are byte or sym.
type symStr []value

// symPtr is &table[idx] for a symbolic idx into an array/slice whose elements are concrete.
type symPtr struct {
	elems []value
	idx   *Term // zero-extended / typed index term (64-bit)
	typ   types.Type
}

func kindInfo(k types.BasicKind) (w uint8, signed bool) {
	switch k {
	case types.Bool, types.UntypedBool:
		return 0, false
	case types.Int, types.Int64, types.UntypedInt:
		return 64, true
	case types.Int8:
		return 8, true
	case types.Int16:
		return 16, true
	case types.Int32, types.UntypedRune:
		return 32, true
	case types.Uint, types.Uint64, types.Uintptr:
		return 64, false
	case types.Uint8:
		return 8, false
	case types.Uint16:
		return 16, false
	case types.Uint32:
		return 32, false
	}
	panic(fmt.Sprintf("kindInfo: unsupported kind %v", k))
}

func basicKind(t types.Type) types.BasicKind {
	if b, ok := t.Underlying().(*types.Basic); ok {
		k := b.Kind()
		switch k {
		case types.UntypedInt:
			return types.Int
		case types.UntypedRune:
			return types.Int32
		case types.UntypedBool:
			return types.Bool
		}
		return k
	}
	return types.Invalid
}

func kindOfValue(v value) types.BasicKind {
	switch v := v.(type) {
	case sym:
		return v.k
	case bool:
		return types.Bool
	case int:
		return types.Int
	case int8:
		return types.Int8
	case int16:
		return types.Int16
	case int32:
		return types.Int32
	case int64:
		return types.Int64
	case uint:
		return types.Uint
	case uint8:
		return types.Uint8
	case uint16:
		return types.Uint16
	case uint32:
		return types.Uint32
	case uint64:
		return types.Uint64
	case uintptr:
		return types.Uintptr
	}
	return types.Invalid
}

func isSym(v value) bool {
	_, ok := v.(sym)
	return ok
}

// rawBits returns the bit pattern of a concrete integer/bool value.
func rawBits(v value) uint64 {
	switch v := v.(type) {
	case bool:
		if v {
			return 1
		}
		return 0
	case int:
		return uint64(v)
	case int8:
		return uint64(v)
	case int16:
		return uint64(v)
	case int32:
		return uint64(v)
	case int64:
		return uint64(v)
	case uint:
		return uint64(v)
	case uint8:
		return uint64(v)
	case uint16:
		return uint64(v)
	case uint32:
		return uint64(v)
	case uint64:
		return v
	case uintptr:
		return uint64(v)
	}
	panic(fmt.Sprintf("rawBits: %T", v))
}

// termOf lifts a concrete or symbolic scalar to a term.
func termOf(v value) *Term {
	if s, ok := v.(sym); ok {
		return s.t
	}
	w, _ := kindInfo(kindOfValue(v))
	return cur.ctx.Const(w, rawBits(v))
}

// concOf builds the concrete Go value of kind k with bit pattern x.
func concOf(k types.BasicKind, x uint64) value {
	switch k {
	case types.Bool:
		return x != 0
	case types.Int:
		return int(x)
	case types.Int8:
		return int8(x)
	case types.Int16:
		return int16(x)
	case types.Int32:
		return int32(x)
	case types.Int64:
		return int64(x)
	case types.Uint:
		return uint(x)
	case types.Uint8:
		return uint8(x)
	case types.Uint16:
		return uint16(x)
	case types.Uint32:
		return uint32(x)
	case types.Uint64:
		return x
	case types.Uintptr:
		return uintptr(x)
	}
	panic(fmt.Sprintf("concOf: kind %v", k))
}

// mkSym wraps a term as a value of kind k, normalising constants to concrete Go values.
func mkSym(t *Term, k types.BasicKind) value {
	if t.IsConst() {
		return concOf(k, t.Val)
	}
	// a single-byte term whose value is determined by the current domain is concrete
	if t.IsUnary8() && cur != nil {
		if d, ok := cur.dom[t.uvar]; ok {
			tab := t.ValTable()
			first := true
			var val uint64
			uniq := true
			for x := 0; x < 256 && uniq; x++ {
				if setHas(d, x) {
					if first {
						val, first = tab[x], false
					} else if tab[x] != val {
						uniq = false
					}
				}
			}
			if uniq && !first {
				return concOf(k, val)
			}
		}
	}
	return sym{t, k}
}

// concretize turns any scalar into a concrete Go value, forking over feasible values.
func concretize(v value) value {
	s, ok := v.(sym)
	if !ok {
		return v
	}
	return concOf(s.k, cur.Concretize(s.t))
}

func symBinop(op token.Token, t types.Type, x, y value) value {
	c := cur.ctx
	k := basicKind(t)
	if k == types.Invalid {
		k = kindOfValue(x)
	}
	switch op {
	case token.SHL, token.SHR:
		w, signed := kindInfo(k)
		a := termOf(x)
		cnt := termOf(y)
		_, cntSigned := kindInfo(kindOfValue(y))
		if cntSigned {
			// negative shift counts panic in Go
			cur.MayPanic(c.Not(c.Cmp(OpSlt, cnt, c.Const(cnt.W, 0))), "negative shift amount", token.NoPos)
		}
		var big *Term = c.False
		if cnt.W > w {
			big = c.Not(c.Cmp(OpUlt, cnt, c.Const(cnt.W, uint64(w))))
			cnt = c.Ext(cnt, w, false)
		} else {
			cnt = c.Ext(cnt, w, false)
		}
		var r *Term
		switch {
		case op == token.SHL:
			r = c.Ite(big, c.Const(w, 0), c.Bin(OpShl, a, cnt))
		case signed:
			r = c.Ite(big, c.Bin(OpAShr, a, c.Const(w, uint64(w-1))), c.Bin(OpAShr, a, cnt))
		default:
			r = c.Ite(big, c.Const(w, 0), c.Bin(OpLShr, a, cnt))
		}
		return mkSym(r, k)
	}
	a, b := termOf(x), termOf(y)
	w, signed := kindInfo(k)
	_ = w
	if k == types.Bool {
		switch op {
		case token.EQL:
			return mkSym(c.Eq(a, b), types.Bool)
		case token.NEQ:
			return mkSym(c.Not(c.Eq(a, b)), types.Bool)
		case token.AND, token.LAND:
			return mkSym(c.And(a, b), types.Bool)
		case token.OR, token.LOR:
			return mkSym(c.Or(a, b), types.Bool)
		}
		panic(fmt.Sprintf("symBinop: bool op %s", op))
	}
	switch op {
	case token.ADD:
		return mkSym(c.Bin(OpAdd, a, b), k)
	case token.SUB:
		return mkSym(c.Bin(OpSub, a, b), k)
	case token.MUL:
		return mkSym(c.Bin(OpMul, a, b), k)
	case token.QUO, token.REM:
		cur.MayPanic(c.Not(c.Eq(b, c.Const(b.W, 0))), "integer divide by zero", token.NoPos)
		var o Op
		switch {
		case op == token.QUO && signed:
			o = OpSDiv
		case op == token.QUO:
			o = OpUDiv
		case signed:
			o = OpSRem
		default:
			o = OpURem
		}
		return mkSym(c.Bin(o, a, b), k)
	case token.AND:
		return mkSym(c.Bin(OpAnd, a, b), k)
	case token.OR:
		return mkSym(c.Bin(OpOr, a, b), k)
	case token.XOR:
		return mkSym(c.Bin(OpXor, a, b), k)
	case token.AND_NOT:
		return mkSym(c.Bin(OpAnd, a, c.Un(OpNot, b)), k)
	case token.EQL:
		return mkSym(c.Eq(a, b), types.Bool)
	case token.NEQ:
		return mkSym(c.Not(c.Eq(a, b)), types.Bool)
	case token.LSS:
		if signed {
			return mkSym(c.Cmp(OpSlt, a, b), types.Bool)
		}
		return mkSym(c.Cmp(OpUlt, a, b), types.Bool)
	case token.LEQ:
		if signed {
			return mkSym(c.Cmp(OpSle, a, b), types.Bool)
		}
		return mkSym(c.Cmp(OpUle, a, b), types.Bool)
	case token.GTR:
		if signed {
			return mkSym(c.Cmp(OpSlt, b, a), types.Bool)
		}
		return mkSym(c.Cmp(OpUlt, b, a), types.Bool)
	case token.GEQ:
		if signed {
			return mkSym(c.Cmp(OpSle, b, a), types.Bool)
		}
		return mkSym(c.Cmp(OpUle, b, a), types.Bool)
	}
	panic(fmt.Sprintf("symBinop: unsupported op %s", op))
}

func symUnop(op token.Token, x sym) value {
	c := cur.ctx
	switch op {
	case token.SUB:
		return mkSym(c.Un(OpNeg, x.t), x.k)
	case token.NOT:
		return mkSym(c.Not(x.t), x.k)
	case token.XOR:
		return mkSym(c.Un(OpNot, x.t), x.k)
	}
	panic(fmt.Sprintf("symUnop: unsupported op %s", op))
}

// symConvInt converts symbolic integer x to basic kind dst.
func symConvInt(dst types.BasicKind, x sym) value {
	if dst == types.Float32 || dst == types.Float64 {
		return conv(types.Typ[dst], types.Typ[x.k], concretize(x))
	}
	w, _ := kindInfo(dst)
	_, srcSigned := kindInfo(x.k)
	return mkSym(cur.ctx.Ext(x.t, w, srcSigned), dst)
}

// ---------------------------------------------------------------- strings

// mkStr normalises a byte sequence to a Go string if fully concrete.
func mkStr(b []value) value {
	allConc := true
	for i, e := range b {
		if s, ok := e.(sym); ok {
			// try to settle it under the path's domains
			if v := mkSym(s.t, types.Uint8); !isSym(v) {
				if allConc {
					// copy on write
				}
				nb := make([]value, len(b))
				copy(nb, b)
				nb[i] = v
				b = nb
				continue
			}
			allConc = false
		}
	}
	if allConc {
		bs := make([]byte, len(b))
		for i, e := range b {
			bs[i] = e.(byte)
		}
		return string(bs)
	}
	return symStr(b)
}

func strBytes(v value) []value {
	switch v := v.(type) {
	case string:
		out := make([]value, len(v))
		for i := 0; i < len(v); i++ {
			out[i] = v[i]
		}
		return out
	case symStr:
		return []value(v)
	}
	panic(fmt.Sprintf("strBytes: %T", v))
}

func isStrVal(v value) bool {
	switch v.(type) {
	case string, symStr:
		return true
	}
	return false
}

func strLen(v value) int {
	switch v := v.(type) {
	case string:
		return len(v)
	case symStr:
		return len(v)
	}
	panic("strLen")
}

// bytesEqTerm returns the Bool term "a == b" for two byte sequences of equal length.
func bytesEqTerm(a, b []value) *Term {
	c := cur.ctx
	r := c.True
	for i := range a {
		ai, bi := a[i], b[i]
		if !isSym(ai) && !isSym(bi) {
			if ai.(byte) != bi.(byte) {
				return c.False
			}
			continue
		}
		r = c.And(r, c.Eq(termOf(ai), termOf(bi)))
		if r.IsConst() && r.Val == 0 {
			return r
		}
	}
	return r
}

// symStrBinop handles + == != < <= > >= when an operand is a symStr.
func symStrBinop(op token.Token, x, y value) value {
	a, b := strBytes(x), strBytes(y)
	c := cur.ctx
	switch op {
	case token.ADD:
		out := make([]value, 0, len(a)+len(b))
		out = append(out, a...)
		out = append(out, b...)
		return mkStr(out)
	case token.EQL, token.NEQ:
		var t *Term
		if len(a) != len(b) {
			t = c.False
		} else {
			t = bytesEqTerm(a, b)
		}
		if op == token.NEQ {
			t = c.Not(t)
		}
		return mkSym(t, types.Bool)
	case token.LSS, token.LEQ, token.GTR, token.GEQ:
		// lexicographic comparison, decided byte by byte through branches
		n := len(a)
		if len(b) < n {
			n = len(b)
		}
		cmp := 0
		for i := 0; i < n && cmp == 0; i++ {
			ta, tb := termOf(a[i]), termOf(b[i])
			if cur.Branch(c.Eq(ta, tb)) {
				continue
			}
			if cur.Branch(c.Cmp(OpUlt, ta, tb)) {
				cmp = -1
			} else {
				cmp = 1
			}
		}
		if cmp == 0 {
			switch {
			case len(a) < len(b):
				cmp = -1
			case len(a) > len(b):
				cmp = 1
			}
		}
		switch op {
		case token.LSS:
			return cmp < 0
		case token.LEQ:
			return cmp <= 0
		case token.GTR:
			return cmp > 0
		default:
			return cmp >= 0
		}
	}
	panic(fmt.Sprintf("symStrBinop: unsupported op %s", op))
}

// concretizeStr forces every byte of a string to a concrete value (forking).
func concretizeStr(v value) string {
	switch v := v.(type) {
	case string:
		return v
	case symStr:
		bs := make([]byte, len(v))
		for i, e := range v {
			bs[i] = concretize(e).(byte)
		}
		return string(bs)
	}
	panic(fmt.Sprintf("concretizeStr: %T", v))
}

// symStrIter iterates over the runes of a symbolic string by running the
// interpreted unicode/utf8.DecodeRuneInString on the remaining bytes.
type symStrIter struct {
	s  symStr
	i  int
	fr *frame
}

func (it *symStrIter) next() tuple {
	okv := make(tuple, 3)
	if it.i >= len(it.s) {
		okv[0] = false
		return okv
	}
	okv[0] = true
	okv[1] = it.i
	b := it.s[it.i]
	if bb, isC := b.(byte); isC && bb < 0x80 {
		okv[2] = rune(bb)
		it.i++
		return okv
	}
	fn := cur.interp.prog.ImportedPackage("unicode/utf8").Func("DecodeRuneInString")
	res := callSSA(cur.interp, it.fr, token.NoPos, fn, []value{mkStr(it.s[it.i:])}, nil).(tuple)
	okv[2] = res[0]
	it.i += int(asInt64(concretize(res[1])))
	return okv
}

// ---------------------------------------------------------------- symbolic table loads

// loadSymPtr reads table[idx] for symbolic idx as an ite-table over the feasible indices.
func loadSymPtr(p symPtr) value {
	n := len(p.elems)
	if n == 0 {
		cur.fault("loadSymPtr: empty table")
	}
	return mergeElems(p.elems, p.idx, p.typ)
}

func mergeElems(elems []value, idx *Term, typ types.Type) value {
	c := cur.ctx
	switch first := elems[0].(type) {
	case structure:
		st := typ.Underlying().(*types.Struct)
		out := make(structure, len(first))
		for f := range first {
			col := make([]value, len(elems))
			for i, e := range elems {
				col[i] = e.(structure)[f]
			}
			out[f] = mergeElems(col, idx, st.Field(f).Type())
		}
		return out
	case array:
		at := typ.Underlying().(*types.Array)
		out := make(array, len(first))
		for f := range first {
			col := make([]value, len(elems))
			for i, e := range elems {
				col[i] = e.(array)[f]
			}
			out[f] = mergeElems(col, idx, at.Elem())
		}
		return out
	}
	k := kindOfValue(elems[0])
	if k == types.Invalid {
		cur.fault("symbolic index into a table of %T", elems[0])
	}
	// feasible indices: under the path's domain when the index depends on one byte
	feas := make([]bool, len(elems))
	nfeas := 0
	if idx.IsUnary8() {
		tab := idx.ValTable()
		d := cur.domOf(idx.uvar)
		for x := 0; x < 256; x++ {
			if setHas(d, x) && tab[x] < uint64(len(elems)) && !feas[tab[x]] {
				feas[tab[x]] = true
				nfeas++
			}
		}
	} else {
		hi := umax(idx)
		for i := range feas {
			if uint64(i) <= hi {
				feas[i] = true
				nfeas++
			}
		}
	}
	if nfeas == 0 {
		cur.fault("symbolic table index has no feasible value")
	}
	// group equal values; each group's condition is a disjunction of index ranges
	type grp struct {
		val  *Term
		cond *Term
	}
	var groups []grp
	byVal := map[*Term]int{}
	i := 0
	for i < len(elems) {
		if !feas[i] {
			i++
			continue
		}
		tv := termOf(elems[i])
		j := i
		// extend the run while the value repeats (infeasible entries inside a run are don't-cares)
		for j+1 < len(elems) && (!feas[j+1] || termOf(elems[j+1]) == tv) {
			j++
		}
		for j > i && !feas[j] {
			j--
		}
		var rc *Term
		if i == j {
			rc = c.Eq(idx, c.Const(idx.W, uint64(i)))
		} else {
			rc = c.And(c.Cmp(OpUle, c.Const(idx.W, uint64(i)), idx), c.Cmp(OpUle, idx, c.Const(idx.W, uint64(j))))
		}
		if g, ok := byVal[tv]; ok {
			groups[g].cond = c.Or(groups[g].cond, rc)
		} else {
			byVal[tv] = len(groups)
			groups = append(groups, grp{tv, rc})
		}
		i = j + 1
	}
	r := groups[len(groups)-1].val
	for g := len(groups) - 2; g >= 0; g-- {
		r = c.Ite(groups[g].cond, groups[g].val, r)
	}
	return mkSym(r, k)
}
