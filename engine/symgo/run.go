package symgo

// Program loading, package initialisation and the path explorer.

import (
	"fmt"
	"go/token"
	"go/types"
	"os"
	"runtime"
	"sort"
	"strings"
	"time"

	"golang.org/x/tools/go/packages"
	"golang.org/x/tools/go/ssa"
	"golang.org/x/tools/go/ssa/ssautil"
)

// Program is a loaded and initialised SSA program.
type Program struct {
	Prog    *ssa.Program
	Pkgs    []*ssa.Package
	interp  *interpreter
	LoadDur time.Duration
	InitDur time.Duration
}

// Options configure an exploration.
type Options struct {
	Harness     string
	Limits      Limits
	Coalesce    bool
	Summarise   bool
	CrossEvery  int
	Shard, Of   int
	MaxPaths    int64
	MaxFindings int
	KnownLabels []string // assertion labels of recorded (known) findings: reported, but they do not stop the exploration
	SolverName  string
	TimeoutMs   int
	LogDir      string
	SitePkgs    []string // package path substrings whose branch sites are recorded
	Deadline    time.Time
	Verbose     bool
	C06         bool
	Fixed       map[string]int
	FrontierMult int
}

// Result of exploring one harness.
type Result struct {
	Harness      string     `json:"harness"`
	Status       string     `json:"status"` // "ok" | "violation" | "inconclusive" | "fault"
	Stats        *Stats     `json:"stats"`
	Findings     []*Finding `json:"findings"`
	KnownSeen    int        `json:"known_label_findings"`
	Samples      []Sample   `json:"samples"`
	SolverQ      int        `json:"solver_queries"`
	SolverS      float64    `json:"solver_s"`
	WallS        float64    `json:"wall_s"`
	Open         int        `json:"open_prefixes"`
	Reason       string     `json:"reason,omitempty"`
	Races        []string   `json:"races,omitempty"`
	Complete     bool       `json:"complete"`
	InstrsPerSec float64    `json:"instrs_per_s"`
}

type Sample struct {
	Outcome string            `json:"outcome"`
	Values  map[string]string `json:"values"`
	Notes   []string          `json:"notes,omitempty"`
}

func Load(dir string, patterns []string, overlay map[string][]byte, tags string) (*Program, error) {
	start := time.Now()
	cfg := &packages.Config{
		Mode:    packages.LoadAllSyntax,
		Dir:     dir,
		Overlay: overlay,
		Env:     append(os.Environ(), "GOFLAGS=-mod=mod", "GOPROXY=off", "GOSUMDB=off", "GOTOOLCHAIN=local", "CGO_ENABLED=0"),
	}
	if tags != "" {
		cfg.BuildFlags = []string{"-tags=" + tags}
	}
	initial, err := packages.Load(cfg, patterns...)
	if err != nil {
		return nil, err
	}
	if packages.PrintErrors(initial) > 0 {
		return nil, fmt.Errorf("packages contain errors")
	}
	prog, pkgs := ssautil.AllPackages(initial, ssa.InstantiateGenerics|ssa.SanityCheckFunctions&0)
	prog.Build()
	p := &Program{Prog: prog, Pkgs: pkgs, LoadDur: time.Since(start)}
	return p, nil
}

// Init creates the interpreter state and runs package initialisers once.
func (p *Program) Init(mainPkg *ssa.Package) error {
	start := time.Now()
	i := &interpreter{
		prog:       p.Prog,
		globals:    make(map[*ssa.Global]*value),
		sizes:      &types.StdSizes{WordSize: 8, MaxAlign: 8},
		goroutines: 1,
		fninfo:     map[*ssa.Function]*fnInfo{},
	}
	runtimePkg := i.prog.ImportedPackage("runtime")
	if runtimePkg == nil {
		return fmt.Errorf("program does not include runtime")
	}
	i.runtimeErrorString = runtimePkg.Type("errorString").Object().Type()
	initReflect(i)
	for _, pkg := range i.prog.AllPackages() {
		for _, m := range pkg.Members {
			if v, ok := m.(*ssa.Global); ok {
				cell := zero(mustDeref(v.Type()))
				i.globals[v] = &cell
			}
		}
	}
	p.interp = i
	// run init under a throw-away Exec (no symbolic inputs exist yet)
	e := newExec(i, nil, Options{Limits: Limits{MaxInstr: 1 << 40, MaxDecisions: 1 << 30, MaxConcVals: 16}}, &Stats{Reach: map[string]int64{}, Funcs: map[string]int64{}})
	e.fset = p.Prog.Fset
	cur = e
	var err error
	func() {
		defer func() {
			if r := recover(); r != nil {
				buf := make([]byte, 8192)
				buf = buf[:runtime.Stack(buf, false)]
				err = fmt.Errorf("package initialisation failed: %v\n%s", r, buf)
			}
		}()
		call(i, nil, token.NoPos, mainPkg.Func("init"), nil)
	}()
	cur = nil
	p.InitDur = time.Since(start)
	return err
}

func newExec(i *interpreter, prefix []int64, opt Options, st *Stats) *Exec {
	e := &Exec{
		ctx:     NewTermCtx(),
		prefix:  prefix,
		genVars: map[*Term]bool{},
		dom:     map[*Term]*[4]uint64{},
		names:   map[string]int{},
		lim:     opt.Limits,
		stats:   st,
		sites:   map[string]bool{},
		interp:  i,
		pools:   map[*value][]value{},
		onceDone: map[*value]bool{},
		stubsUsed: st.stubs(),
		fixed:     opt.Fixed,
		symMaps:   map[uintptr][]symMapEntry{},
		coalesce: opt.Coalesce, summarise: opt.Summarise, crossEvery: opt.CrossEvery,
	}
	return e
}

// Session is an exploration of one harness that can be driven in batches (used by the
// multi-process coordinator in cmd/symgo: a worker process holds one Session per harness).
type Session struct {
	p          *Program
	opt        Options
	res        *Result
	st         *Stats
	solver     *Solver
	start      time.Time
	process    func(prefix []int64, countStats bool) [][]int64
	complete   bool
	stopReason string
}

// RunBatch explores depth-first from the given open prefixes until they are exhausted or budget
// paths have been run (budget <= 0: no limit); it returns the prefixes that are still open.
func (s *Session) RunBatch(work [][]int64, budget int64, maxDur time.Duration) [][]int64 {
	opt, st, res := s.opt, s.st, s.res
	startPaths := st.Paths
	began := time.Now()
	for len(work) > 0 {
		if budget > 0 && st.Paths-startPaths >= budget {
			break
		}
		if maxDur > 0 && st.Paths > startPaths && time.Since(began) > maxDur {
			break
		}
		if opt.MaxPaths > 0 && st.Paths >= opt.MaxPaths {
			s.complete, s.stopReason = false, fmt.Sprintf("path budget %d exhausted", opt.MaxPaths)
			break
		}
		if !opt.Deadline.IsZero() && time.Now().After(opt.Deadline) {
			s.complete, s.stopReason = false, "time budget exhausted"
			break
		}
		if len(res.Findings)-res.KnownSeen >= opt.MaxFindings {
			s.complete, s.stopReason = false, "stopped after findings"
			break
		}
		pfx := work[len(work)-1]
		work = work[:len(work)-1]
		work = append(work, s.process(pfx, true)...)
	}
	return work
}

// Finish closes the session and returns the result; open is the number of prefixes left unexplored.
func (s *Session) Finish(open int) *Result {
	res, st, p := s.res, s.st, s.p
	if s.solver != nil {
		defer s.solver.Close()
	}
	if res.Status == "fault" && res.Stats == nil {
		return res
	}
	if open > 0 && s.complete {
		s.complete, s.stopReason = false, "open prefixes left"
	}
	res.Open = open
	res.Complete = s.complete
	for f, fi := range p.interp.fninfo {
		if fi.calls > 0 && f.Pkg != nil {
			st.Funcs[f.String()] += fi.calls
			fi.calls = 0
		}
	}
	res.SolverQ = s.solver.Queries
	res.SolverS = s.solver.Wall.Seconds()
	res.WallS = time.Since(s.start).Seconds()
	if res.WallS > 0 {
		res.InstrsPerSec = float64(st.Instrs) / res.WallS
	}
	switch {
	case st.PathsFault > 0 || st.CrossDisagree > 0 || s.solver.Errors > 0:
		res.Status = "fault"
		res.Reason = "engine fault, solver error or solver disagreement"
	case len(res.Findings) > 0 || len(res.Races) > 0:
		res.Status = "violation"
	case st.PathsBudget > 0 || st.Inconclusive > 0 || !s.complete:
		res.Status = "inconclusive"
		res.Reason = s.stopReason
		if res.Reason == "" {
			res.Reason = "budget exceeded or solver unknown on some path"
		}
	default:
		res.Status = "ok"
	}
	return res
}

// Explore runs harness fn over all paths (or this process's shard of them).
func (p *Program) Explore(pkg *ssa.Package, opt Options) *Result {
	s := p.NewSession(pkg, opt)
	if s.solver == nil {
		return s.res
	}
	work := [][]int64{nil}
	if opt.Of > 1 {
		work = s.shardFrontier()
	}
	work = s.RunBatch(work, 0, 0)
	return s.Finish(len(work))
}

// NewSession prepares the exploration of harness opt.Harness (solver, per-path runner).
func (p *Program) NewSession(pkg *ssa.Package, opt Options) *Session {
	start := time.Now()
	res := &Result{Harness: opt.Harness}
	sess := &Session{p: p, res: res, start: start, complete: true}
	st := &Stats{Reach: map[string]int64{}, Funcs: map[string]int64{}}
	res.Stats = st
	fn := pkg.Func(opt.Harness)
	if fn == nil {
		res.Status, res.Reason = "fault", "no such harness function: "+opt.Harness
		return sess
	}
	solver, err := NewSolver(opt.SolverName, opt.TimeoutMs)
	if err != nil {
		res.Status, res.Reason = "fault", "cannot start solver: "+err.Error()
		return sess
	}
	solver.LogDir = opt.LogDir
	if opt.Limits.MaxInstr == 0 {
		opt.Limits.MaxInstr = 2_000_000
	}
	if opt.Limits.MaxDecisions == 0 {
		opt.Limits.MaxDecisions = 20000
	}
	if opt.Limits.MaxConcVals == 0 {
		opt.Limits.MaxConcVals = 600
	}
	if opt.FrontierMult == 0 {
		opt.FrontierMult = 8
	}
	if opt.MaxFindings == 0 {
		opt.MaxFindings = 6
	}
	var siteOf func(*ssa.Function) bool
	if len(opt.SitePkgs) > 0 {
		cache := map[*ssa.Function]bool{}
		siteOf = func(f *ssa.Function) bool {
			if v, ok := cache[f]; ok {
				return v
			}
			v := false
			if f.Pkg != nil {
				for _, s := range opt.SitePkgs {
					if strings.Contains(f.Pkg.Pkg.Path(), s) && !strings.HasPrefix(shortFile(p.Prog.Fset.Position(f.Pos()).Filename), "zz_") {
						v = true
					}
				}
			}
			if strings.Contains(p.Prog.Fset.Position(f.Pos()).Filename, "zz_verif") {
				v = false
			}
			cache[f] = v
			return v
		}
	}

	runPath := func(prefix []int64) (*Exec, string) {
		e := newExec(p.interp, prefix, opt, st)
		e.solver = solver
		e.harness = opt.Harness
		e.fset = p.Prog.Fset
		e.siteOf = siteOf
		e.started = time.Now()
		e.deadline = opt.Deadline
		if opt.C06 {
			e.enableAccessLog()
		}
		cur = e
		outcome := "return"
		func() {
			defer func() {
				r := recover()
				if r == nil {
					return
				}
				switch r := r.(type) {
				case pathAbort:
					outcome = r.kind
					if r.kind == "fault" || r.kind == "budget" {
						if len(st.Faults) < 20 {
							st.Faults = append(st.Faults, r.kind+": "+r.msg)
						}
					}
				case targetPanic:
					outcome = "panic"
					e.stats.Obligations++
					e.stats.Violated++
					e.recordFinding("panic", "panic: "+toString(r.v), "", nil)
				case targetRuntimePanic:
					outcome = "panic"
					e.stats.Obligations++
					e.stats.Violated++
					e.recordFinding("panic", r.Error(), r.pos, nil)
				case string:
					outcome = "panic"
					e.stats.Obligations++
					e.stats.Violated++
					e.recordFinding("panic", "panic: "+r, "", nil)
				default:
					outcome = "fault"
					buf := make([]byte, 8192)
					buf = buf[:runtime.Stack(buf, false)]
					if len(st.Faults) < 20 {
						st.Faults = append(st.Faults, fmt.Sprintf("engine panic: %v\n%s", r, buf))
					}
				}
			}()
			call(p.interp, nil, token.NoPos, fn, nil)
		}()
		if opt.C06 && outcome == "return" {
			e.finishAccessLog()
		}
		e.rollback()
		cur = nil
		st.Paths++
		st.Instrs += e.instrs
		switch outcome {
		case "assume":
			st.PathsAssumeCut++
		case "budget":
			st.PathsBudget++
		case "fault":
			st.PathsFault++
		}
		return e, outcome
	}

	process := func(prefix []int64, countStats bool) [][]int64 {
		e, outcome := runPath(prefix)
		for _, f := range e.finds {
			known := false
			for _, kl := range opt.KnownLabels {
				if f.Label == kl {
					known = true
				}
			}
			if known {
				if res.KnownSeen < 3 {
					res.KnownSeen++
					res.Findings = append(res.Findings, f)
				}
			} else if len(res.Findings)-res.KnownSeen < opt.MaxFindings {
				res.Findings = append(res.Findings, f)
			}
		}
		res.Races = append(res.Races, e.races...)
		if len(res.Samples) < 12 && (outcome == "return" || outcome == "panic") && (st.Paths%7 == 1 || len(res.Samples) < 3) {
			res.Samples = append(res.Samples, Sample{Outcome: outcome, Values: e.sampleValues(), Notes: e.notes})
		}
		if opt.Verbose {
			fmt.Fprintf(os.Stderr, "path %d: %s decisions=%d instrs=%d new=%d\n", st.Paths, outcome, len(e.trail), e.instrs, len(e.newWork))
		}
		return e.newWork
	}
	sess.opt, sess.st, sess.solver, sess.process = opt, st, solver, process
	return sess
}

// shardFrontier: legacy static sharding (-shard/-of): expand breadth-first until there are enough
// open prefixes, then keep this shard's share.
func (s *Session) shardFrontier() [][]int64 {
	opt, st, res, process := s.opt, s.st, s.res, s.process
	frontier := [][]int64{nil}
	for len(frontier) > 0 && len(frontier) < opt.FrontierMult*opt.Of {
		// expand the shallowest prefix
		sort.SliceStable(frontier, func(i, j int) bool { return len(frontier[i]) < len(frontier[j]) })
		pfx := frontier[0]
		frontier = frontier[1:]
		if opt.Shard == 0 {
			frontier = append(frontier, process(pfx, true)...)
		} else {
			// other shards replay the expansion silently
			saveSt := *st
			saveFind, saveSamp := res.Findings, res.Samples
			nw := process(pfx, false)
			reach, funcs := st.Reach, st.Funcs
			*st = saveSt
			st.Reach, st.Funcs = reach, funcs
			res.Findings, res.Samples = saveFind, saveSamp
			frontier = append(frontier, nw...)
		}
	}
	sort.SliceStable(frontier, func(i, j int) bool { return lessPrefix(frontier[i], frontier[j]) })
	var work [][]int64
	for k, pfx := range frontier {
		if k%opt.Of == opt.Shard {
			work = append(work, pfx)
		}
	}
	if opt.Shard != 0 {
		st.Reach, st.Funcs = map[string]int64{}, map[string]int64{}
	}
	return work
}

func lessPrefix(a, b []int64) bool {
	for i := 0; i < len(a) && i < len(b); i++ {
		if a[i] != b[i] {
			return a[i] < b[i]
		}
	}
	return len(a) < len(b)
}

// sampleValues produces one concrete member of the path's input class.
func (e *Exec) sampleValues() map[string]string {
	var want []*Term
	for _, in := range e.inputs {
		want = append(want, in.Terms...)
	}
	if len(want) == 0 {
		return e.valuesFromModel(nil)
	}
	// cheap: pick from domains when no general constraints exist
	if len(e.general) == 0 && len(e.clauses) == 0 && len(e.bins) == 0 {
		m := map[*Term]uint64{}
		for _, t := range want {
			if t.W == 8 {
				if x := setFirstPrintable(e.domOf(t)); x >= 0 {
					m[t] = uint64(x)
				}
			}
		}
		return e.valuesFromModel(m)
	}
	r, model, _ := e.solver.Check(e.allGeneral(), e.dom, want)
	if r != Sat {
		return map[string]string{"_": "no model (" + r.String() + ")"}
	}
	return e.valuesFromModel(model)
}

func setFirstPrintable(d *[4]uint64) int {
	for x := 0x21; x < 0x7f; x++ {
		if setHas(d, x) {
			return x
		}
	}
	return setFirst(d)
}

// MainPackage returns the SSA package matched by the load pattern (the first initial package).
func (p *Program) MainPackage(pattern string) *ssa.Package {
	for _, pk := range p.Pkgs {
		if pk != nil {
			return pk
		}
	}
	return nil
}

// FindingsCount reports the findings recorded so far in this session.
func (s *Session) FindingsCount() int { return len(s.res.Findings) - s.res.KnownSeen + len(s.res.Races) }

// Failed reports that the session could not be set up (no such harness, solver did not start).
func (s *Session) Failed() bool { return s.solver == nil }

// MergeResults combines the results of worker processes that explored disjoint parts of one harness.
func MergeResults(harness string, parts []*Result, open int, complete bool, reason string, maxFindings int, wall float64) *Result {
	res := &Result{Harness: harness, Complete: complete, Open: open, WallS: wall}
	st := &Stats{Reach: map[string]int64{}, Funcs: map[string]int64{}, Stubs: map[string]bool{}}
	res.Stats = st
	rank := map[string]int{"ok": 0, "": 0, "inconclusive": 1, "violation": 2, "fault": 3}
	worst := "ok"
	for _, r := range parts {
		if r == nil {
			continue
		}
		if rank[r.Status] > rank[worst] {
			worst = r.Status
			res.Reason = r.Reason
		}
		if s := r.Stats; s != nil {
			st.Paths += s.Paths
			st.PathsAssumeCut += s.PathsAssumeCut
			st.PathsBudget += s.PathsBudget
			st.PathsFault += s.PathsFault
			st.Instrs += s.Instrs
			st.Branches += s.Branches
			st.UnaryDecided += s.UnaryDecided
			st.SolverDecided += s.SolverDecided
			st.Obligations += s.Obligations
			st.Discharged += s.Discharged
			st.Violated += s.Violated
			st.Inconclusive += s.Inconclusive
			st.CrossChecked += s.CrossChecked
			st.CrossDisagree += s.CrossDisagree
			st.Concretized += s.Concretized
			st.Merged += s.Merged
			st.Summarised += s.Summarised
			for k, v := range s.Reach {
				st.Reach[k] += v
			}
			for k, v := range s.Funcs {
				st.Funcs[k] += v
			}
			for k := range s.Stubs {
				st.Stubs[k] = true
			}
			for _, f := range s.Faults {
				if len(st.Faults) < 20 {
					st.Faults = append(st.Faults, f)
				}
			}
		}
		for _, f := range r.Findings {
			if len(res.Findings) < maxFindings+6 {
				res.Findings = append(res.Findings, f)
			}
		}
		res.KnownSeen += r.KnownSeen
		for _, sm := range r.Samples {
			if len(res.Samples) < 12 {
				res.Samples = append(res.Samples, sm)
			}
		}
		res.Races = append(res.Races, r.Races...)
		res.SolverQ += r.SolverQ
		res.SolverS += r.SolverS
	}
	if worst == "ok" && !complete {
		worst = "inconclusive"
		res.Reason = reason
	}
	if worst == "violation" && res.Reason == "" && !complete {
		res.Reason = reason
	}
	res.Status = worst
	if wall > 0 {
		res.InstrsPerSec = float64(st.Instrs) / wall
	}
	return res
}
