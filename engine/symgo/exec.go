package symgo

// Path state, decision replay, feasibility, concretisation, findings.

import (
	"encoding/hex"
	"fmt"
	"go/token"
	"os"
	"sort"
	"strings"
	"time"

	"golang.org/x/tools/go/ssa"
)

// pathAbort is panicked (as a Go panic) to end the current path.
type pathAbort struct {
	kind string // "assume", "budget", "fault", "stop"
	msg  string
}

// targetRuntimePanic is a Go run-time panic raised by the interpreted program
// (index out of range, nil dereference, division by zero, failed type assertion).
type targetRuntimePanic struct {
	kind string
	pos  string
}

func (p targetRuntimePanic) Error() string   { return "runtime error: " + p.kind + " at " + p.pos }
func (p targetRuntimePanic) RuntimeError()   {}
func (p targetRuntimePanic) String() string  { return p.Error() }

type inputVar struct {
	Name  string
	Kind  string // "bytes", "byte", "uint32", "int", "bool", "choice"
	Terms []*Term
	Conc  int64 // for concrete inputs (choice, length)
}

// Finding is a violated obligation together with a model.
type Finding struct {
	Kind    string            `json:"kind"` // "assert" | "panic"
	Label   string            `json:"label"`
	Pos     string            `json:"pos"`
	Values  map[string]string `json:"values"`
	Path    []int64           `json:"path"`
	Sites   []string          `json:"sites,omitempty"`
	Harness string            `json:"harness"`
	Trace   []string          `json:"trace,omitempty"`
}

// Limits bounds one path.
type Limits struct {
	MaxInstr     int64
	MaxDecisions int
	MaxConcVals  int
}

// Stats are accumulated over all paths of an exploration.
type Stats struct {
	Paths          int64
	PathsAssumeCut int64
	PathsBudget    int64
	PathsFault     int64
	Instrs         int64
	Branches       int64
	UnaryDecided   int64
	SolverDecided  int64
	Obligations    int64
	Discharged     int64
	Violated       int64
	Inconclusive   int64
	CrossChecked   int64
	CrossDisagree  int64
	Concretized    int64
	Merged         int64
	Summarised     int64
	Reach          map[string]int64
	Funcs          map[string]int64
	Faults         []string
	Stubs          map[string]bool
}

func (s *Stats) stubs() map[string]bool {
	if s.Stubs == nil {
		s.Stubs = map[string]bool{}
	}
	return s.Stubs
}

type undoEntry struct {
	addr *value
	old  value
}

// Exec is the state of the currently explored path (one per process at a time).
type Exec struct {
	ctx     *TermCtx
	prefix  []int64
	trail   []int64
	forced  []bool
	newWork [][]int64
	cons    []*Term // every constraint assumed on this path, in order
	general []*Term // those that are neither single-byte constraints nor clauses of single-byte literals
	clauses []*clause
	bins    []*bin2 // constraints over exactly two byte variables, as truth tables
	genVars map[*Term]bool
	dom     map[*Term]*[4]uint64
	inputs  []*inputVar
	names   map[string]int
	solver  *Solver
	cross   []*Solver
	lim     Limits
	instrs  int64
	undo    []undoEntry
	undoFns []func()
	stats   *Stats
	finds   []*Finding
	harness string
	sites   map[string]bool
	fset    *token.FileSet
	// options
	crossEvery int // cross-check every n-th unary verdict with z3 (0 = never)
	unaryCount int64
	started    time.Time
	thread     int
	interp     *interpreter
	coalesce   bool
	summarise  bool
	siteOf     func(*ssa.Function) bool
	onStore    func(addr *value)
	onLock     func(mu *value, op string)
	onAppendInPlace func(fr *frame, s []value, n int)
	watch      map[*value]bool
	written    int
	pools      map[*value][]value
	onceDone   map[*value]bool
	notes      []string
	panicTrace []string
	stubsUsed  map[string]bool
	fixed      map[string]int
	deadline   time.Time
	symMaps    map[uintptr][]symMapEntry
	curInstr   ssa.Instruction
	lastBoth   bool
	maxDepth   int
	depthBase  int
	alog       *accessLog
	syncMaps   map[*value]map[syncMapKey][2]value
	fileInfo   value
	par        *parState
	fileReader value
	fileClosed int
	races      []string
}

var cur *Exec

var logZ3 = os.Getenv("SYMGO_LOGZ3") != ""

func (e *Exec) checkDeadline() {
	if !e.deadline.IsZero() && time.Now().After(e.deadline) {
		e.abort("budget", "wall-clock budget exhausted inside a path")
	}
}

func (e *Exec) abort(kind, msg string) {
	panic(pathAbort{kind, msg})
}

func (e *Exec) fault(format string, args ...interface{}) {
	panic(pathAbort{"fault", fmt.Sprintf(format, args...)})
}

// ---------------------------------------------------------------- constraints

func (e *Exec) domOf(v *Term) *[4]uint64 {
	if d, ok := e.dom[v]; ok {
		return d
	}
	return &fullSet
}

// addConstraint records c as true on this path (no feasibility check).
func (e *Exec) addConstraint(c *Term) {
	if c.IsConst() {
		if c.Val == 0 {
			e.abort("assume", "constraint is false")
		}
		return
	}
	// split conjunctions
	if c.Op == OpBAnd {
		e.addConstraint(c.Args[0])
		e.addConstraint(c.Args[1])
		return
	}
	e.cons = append(e.cons, c)
	if c.IsUnary8() {
		d := setAnd(e.domOf(c.uvar), c.TruthSet())
		e.dom[c.uvar] = &d
		return
	}
	if lits, ok := toLits(e.ctx, c, nil); ok {
		e.clauses = append(e.clauses, &clause{lits: lits, term: c})
		return
	}
	if c.IsBinary8() {
		e.bins = append(e.bins, &bin2{a: c.uvar, b: c.uvar2, tab: c.Table2(), term: c})
		return
	}
	e.general = append(e.general, c)
	seen := map[*Term]bool{}
	var vs []*Term
	CollectVars(c, seen, &vs)
	for _, v := range vs {
		e.genVars[v] = true
	}
}

// ---- finite-domain procedure: per-variable 256-bit domains plus clauses of single-byte literals

type lit struct {
	v     *Term
	truth [4]uint64
}

type clause struct {
	lits []lit
	term *Term
}

// toLits converts t into a disjunction of single-byte literals, if it has that shape.
func toLits(ctx *TermCtx, t *Term, out []lit) ([]lit, bool) {
	if t.IsConst() {
		if t.Val != 0 {
			return nil, false // trivially true clause: caller should not ask
		}
		return out, true
	}
	if t.IsUnary8() {
		return append(out, lit{t.uvar, *t.TruthSet()}), true
	}
	switch t.Op {
	case OpBOr:
		var ok bool
		if out, ok = toLits(ctx, t.Args[0], out); !ok {
			return nil, false
		}
		return toLits(ctx, t.Args[1], out)
	case OpNot:
		if t.Args[0].Op == OpBAnd {
			for _, a := range flattenAnd(t.Args[0], nil) {
				var ok bool
				if out, ok = toLits(ctx, ctx.Not(a), out); !ok {
					return nil, false
				}
			}
			return out, true
		}
	}
	return nil, false
}

// bin2 is a constraint over two byte variables: tab[x] is the set of b values allowed when a == x.
type bin2 struct {
	a, b *Term
	tab  *[256][4]uint64
	term *Term
}

type fdState struct {
	bins    []*bin2
	dom     map[*Term][4]uint64
	e       *Exec
	steps   int
	gaveUp  bool
}

func (st *fdState) get(v *Term) [4]uint64 {
	if d, ok := st.dom[v]; ok {
		return d
	}
	return *st.e.domOf(v)
}

// propagate applies unit propagation; returns false on conflict. remaining receives unresolved clauses.
func (st *fdState) propagate(cls []*clause) ([]*clause, bool) {
	for {
		changed := false
		var rest []*clause
		for _, c := range cls {
			npos := 0
			var last lit
			sat := false
			for _, l := range c.lits {
				d := st.get(l.v)
				in := setAnd(&d, &l.truth)
				if setEmpty(&in) {
					continue
				}
				out := setAndNot(&d, &l.truth)
				if setEmpty(&out) {
					sat = true
					break
				}
				npos++
				last = l
			}
			if sat {
				continue
			}
			if npos == 0 {
				return nil, false
			}
			if npos == 1 {
				d := st.get(last.v)
				st.dom[last.v] = setAnd(&d, &last.truth)
				changed = true
				continue
			}
			rest = append(rest, c)
		}
		cls = rest
		// arc consistency on the binary tables
		for _, bc := range st.bins {
			da, db := st.get(bc.a), st.get(bc.b)
			var na, supB [4]uint64
			for x := 0; x < 256; x++ {
				if !setHas(&da, x) {
					continue
				}
				row := setAnd(&bc.tab[x], &db)
				if setEmpty(&row) {
					continue
				}
				na[x>>6] |= 1 << (uint(x) & 63)
				supB[0] |= row[0]
				supB[1] |= row[1]
				supB[2] |= row[2]
				supB[3] |= row[3]
			}
			if setEmpty(&na) {
				return nil, false
			}
			if na != da {
				st.dom[bc.a] = na
				changed = true
			}
			if supB != db {
				st.dom[bc.b] = supB
				changed = true
			}
		}
		if !changed {
			return cls, true
		}
	}
}

func (st *fdState) solve(cls []*clause) bool {
	st.steps++
	if st.steps > 2000 {
		st.gaveUp = true
		return false
	}
	cls, ok := st.propagate(cls)
	if !ok {
		return false
	}
	if len(cls) == 0 {
		return true
	}
	// branch on the shortest clause
	best := cls[0]
	for _, c := range cls[1:] {
		if len(c.lits) < len(best.lits) {
			best = c
		}
	}
	for _, l := range best.lits {
		d := st.get(l.v)
		in := setAnd(&d, &l.truth)
		if setEmpty(&in) {
			continue
		}
		saved := make(map[*Term][4]uint64, len(st.dom))
		for k, v := range st.dom {
			saved[k] = v
		}
		st.dom[l.v] = in
		if st.solve(cls) {
			return true
		}
		if st.gaveUp {
			return false
		}
		st.dom = saved
	}
	return false
}

// fast tries to decide satisfiability of (pc ∧ c) with the finite-domain procedure.
// ok=false means "cannot tell" (the caller then asks z3).
func (e *Exec) fast(c *Term) (sat bool, ok bool) {
	if c.IsConst() {
		return c.Val != 0, true
	}
	st := &fdState{dom: map[*Term][4]uint64{}, e: e}
	var newCls []*clause
	touched := map[*Term]bool{}
	for _, part := range flattenAnd(c, nil) {
		if part.IsUnary8() {
			d := st.get(part.uvar)
			st.dom[part.uvar] = setAnd(&d, part.TruthSet())
			touched[part.uvar] = true
			continue
		}
		lits, isCl := toLits(e.ctx, part, nil)
		if !isCl {
			if part.IsBinary8() {
				st.bins = append(st.bins, &bin2{a: part.uvar, b: part.uvar2, tab: part.Table2(), term: part})
				touched[part.uvar], touched[part.uvar2] = true, true
				continue
			}
			return false, false
		}
		for _, l := range lits {
			touched[l.v] = true
		}
		newCls = append(newCls, &clause{lits: lits, term: part})
	}
	for v, d := range st.dom {
		if setEmpty(&d) {
			_ = v
			return false, true
		}
	}
	// clauses connected to the touched variables
	cls := newCls
	used := make([]bool, len(e.clauses))
	usedB := make([]bool, len(e.bins))
	for changed := true; changed; {
		changed = false
		for i, bc := range e.bins {
			if !usedB[i] && (touched[bc.a] || touched[bc.b]) {
				usedB[i] = true
				changed = true
				st.bins = append(st.bins, bc)
				touched[bc.a], touched[bc.b] = true, true
			}
		}
		for i, cl := range e.clauses {
			if used[i] {
				continue
			}
			hit := false
			for _, l := range cl.lits {
				if touched[l.v] {
					hit = true
					break
				}
			}
			if hit {
				used[i] = true
				changed = true
				cls = append(cls, cl)
				for _, l := range cl.lits {
					touched[l.v] = true
				}
			}
		}
	}
	hard := false
	for v := range touched {
		if e.genVars[v] {
			hard = true
		}
	}
	// merge tables on the same pair; arc consistency is complete only for acyclic constraint graphs
	if len(st.bins) > 1 {
		merged := map[[2]*Term]*bin2{}
		var order []*bin2
		for _, bc := range st.bins {
			k := [2]*Term{bc.a, bc.b}
			if m, ok := merged[k]; ok {
				nt := new([256][4]uint64)
				for x := 0; x < 256; x++ {
					nt[x] = setAnd(&m.tab[x], &bc.tab[x])
				}
				m.tab = nt
			} else {
				cp := *bc
				merged[k] = &cp
				order = append(order, &cp)
			}
		}
		st.bins = order
		parent := map[*Term]*Term{}
		var find func(v *Term) *Term
		find = func(v *Term) *Term {
			if p, ok := parent[v]; ok && p != v {
				r := find(p)
				parent[v] = r
				return r
			}
			parent[v] = v
			return v
		}
		for _, bc := range st.bins {
			ra, rb := find(bc.a), find(bc.b)
			if ra == rb {
				hard = true // cycle: a positive answer is not conclusive
			}
			parent[ra] = rb
		}
	}
	res := st.solve(cls)
	if st.gaveUp {
		return false, false
	}
	if !res {
		return false, true // adding the hard constraints can only shrink the solution set
	}
	if hard {
		return false, false
	}
	return true, true
}

func flattenAnd(c *Term, out []*Term) []*Term {
	if c.Op == OpBAnd {
		out = flattenAnd(c.Args[0], out)
		return flattenAnd(c.Args[1], out)
	}
	return append(out, c)
}

// relevant returns the constraints connected to goal through shared variables.
func (e *Exec) relevant(goal *Term) []*Term {
	seen := map[*Term]bool{}
	var gv []*Term
	CollectVars(goal, seen, &gv)
	inSet := map[*Term]bool{}
	for _, v := range gv {
		inSet[v] = true
	}
	type gc struct {
		t    *Term
		vars []*Term
		used bool
	}
	gcs := make([]gc, 0, len(e.general)+len(e.clauses))
	for _, c := range e.general {
		var vs []*Term
		CollectVars(c, map[*Term]bool{}, &vs)
		gcs = append(gcs, gc{t: c, vars: vs})
	}
	for _, cl := range e.clauses {
		vs := make([]*Term, len(cl.lits))
		for i, l := range cl.lits {
			vs[i] = l.v
		}
		gcs = append(gcs, gc{t: cl.term, vars: vs})
	}
	for _, bc := range e.bins {
		gcs = append(gcs, gc{t: bc.term, vars: []*Term{bc.a, bc.b}})
	}
	changed := true
	var out []*Term
	for changed {
		changed = false
		for i := range gcs {
			if gcs[i].used {
				continue
			}
			hit := false
			for _, v := range gcs[i].vars {
				if inSet[v] {
					hit = true
					break
				}
			}
			if hit {
				gcs[i].used = true
				changed = true
				out = append(out, gcs[i].t)
				for _, v := range gcs[i].vars {
					inSet[v] = true
				}
			}
		}
	}
	return out
}

// feasible decides whether pc ∧ c is satisfiable.
func (e *Exec) feasible(c *Term) SatResult {
	if s, ok := e.fast(c); ok {
		e.stats.UnaryDecided++
		e.unaryCount++
		if e.crossEvery > 0 && e.unaryCount%int64(e.crossEvery) == 0 {
			e.crossCheckUnary(c, s)
		}
		if s {
			return Sat
		}
		return Unsat
	}
	e.stats.SolverDecided++
	cons := append(e.relevant(c), c)
	if logZ3 {
		str := c.String()
		if len(str) > 300 {
			str = str[:300] + "..."
		}
		fmt.Fprintf(os.Stderr, "Z3? nvars=%d cons=%d %s\n", c.nvars, len(cons), str)
	}
	r, _, _ := e.solver.Check(cons, e.dom, nil)
	return r
}

func (e *Exec) crossCheckUnary(c *Term, got bool) {
	cons := append(e.relevant(c), c)
	r, _, _ := e.solver.Check(cons, e.dom, nil)
	e.stats.CrossChecked++
	if (r == Sat) != got || r == Unknown {
		e.stats.CrossDisagree++
		e.fault("bitset procedure and z3 disagree on %s: bitset=%v z3=%v", c, got, r)
	}
}

// ---------------------------------------------------------------- decisions

func (e *Exec) record(choice int64, forced bool, siblings []int64) {
	if !forced {
		for _, s := range siblings {
			p := make([]int64, len(e.trail)+1)
			copy(p, e.trail)
			p[len(e.trail)] = s
			e.newWork = append(e.newWork, p)
		}
	}
	e.trail = append(e.trail, choice)
	if len(e.trail) > e.lim.MaxDecisions {
		e.abort("budget", fmt.Sprintf("more than %d decisions on one path", e.lim.MaxDecisions))
	}
}

// Branch decides a symbolic boolean, forking if both outcomes are feasible.
func (e *Exec) Branch(c *Term) bool {
	if c.IsConst() {
		return c.Val != 0
	}
	e.stats.Branches++
	if len(e.trail) < len(e.prefix) {
		ch := e.prefix[len(e.trail)]
		e.trail = append(e.trail, ch)
		if ch == 0 {
			e.addConstraint(c)
			return true
		}
		e.addConstraint(e.ctx.Not(c))
		return false
	}
	nc := e.ctx.Not(c)
	ft := e.feasible(c)
	ff := e.feasible(nc)
	if ft == Unknown || ff == Unknown {
		e.stats.Inconclusive++
		e.abort("budget", "solver returned unknown on a branch condition")
	}
	switch {
	case ft == Sat && ff == Sat:
		e.lastBoth = true
		e.record(0, false, []int64{1})
		e.addConstraint(c)
		return true
	case ft == Sat:
		e.record(0, true, nil)
		e.addConstraint(c)
		return true
	case ff == Sat:
		e.record(1, true, nil)
		e.addConstraint(nc)
		return false
	}
	e.fault("both sides of a branch infeasible: %s", c)
	return false
}

// Choose forks over the feasible guards (mutually exclusive, jointly exhaustive) and returns the index taken.
func (e *Exec) Choose(guards []*Term) int {
	e.stats.Branches++
	if len(e.trail) < len(e.prefix) {
		ch := e.prefix[len(e.trail)]
		e.trail = append(e.trail, ch)
		e.addConstraint(guards[ch])
		return int(ch)
	}
	var feas []int64
	for i, g := range guards {
		r := e.feasible(g)
		if r == Unknown {
			e.stats.Inconclusive++
			e.abort("budget", "solver returned unknown on a guard")
		}
		if r == Sat {
			feas = append(feas, int64(i))
		}
	}
	if len(feas) == 0 {
		e.fault("no feasible guard among %d", len(guards))
	}
	e.record(feas[0], len(feas) == 1, feas[1:])
	e.addConstraint(guards[feas[0]])
	return int(feas[0])
}

// ChooseN forks over 0..n-1 without constraints (harness-level nondeterministic choice).
func (e *Exec) ChooseN(n int) int {
	if n <= 1 {
		return 0
	}
	if len(e.trail) < len(e.prefix) {
		ch := e.prefix[len(e.trail)]
		e.trail = append(e.trail, ch)
		return int(ch)
	}
	sib := make([]int64, 0, n-1)
	for i := 1; i < n; i++ {
		sib = append(sib, int64(i))
	}
	e.record(0, false, sib)
	return 0
}

// Concretize forks over every feasible value of t and returns the one taken on this path.
func (e *Exec) Concretize(t *Term) uint64 {
	if t.IsConst() {
		return t.Val
	}
	e.stats.Concretized++
	if len(e.trail) < len(e.prefix) {
		v := uint64(e.prefix[len(e.trail)])
		e.trail = append(e.trail, int64(v))
		e.addConstraint(e.ctx.Eq(t, e.ctx.Const(t.W, v)))
		return v
	}
	var vals []uint64
	if logZ3 && e.curInstr != nil {
		fmt.Fprintf(os.Stderr, "CONC at %s in %s: %s\n", e.posStr(e.curInstr.Pos()), e.curInstr.Parent().String(), e.curInstr.String())
	}
	if t.IsUnary8() && !e.genVars[t.uvar] {
		tab := t.ValTable()
		d := e.domOf(t.uvar)
		seen := map[uint64]bool{}
		for x := 0; x < 256; x++ {
			if setHas(d, x) && !seen[tab[x]] {
				seen[tab[x]] = true
				if (len(e.clauses) == 0 && len(e.bins) == 0) || e.feasible(e.ctx.Eq(t, e.ctx.Const(t.W, tab[x]))) == Sat {
					vals = append(vals, tab[x])
				}
			}
		}
		e.stats.UnaryDecided++
	} else {
		// enumerate by blocking
		cons := e.relevant(t)
		for {
			e.checkDeadline()
			e.stats.SolverDecided++
			probe := e.ctx.Var("conc!probe", t.W)
			q := append(append([]*Term{}, cons...), e.ctx.Eq(probe, t))
			for _, v := range vals {
				q = append(q, e.ctx.Not(e.ctx.Eq(t, e.ctx.Const(t.W, v))))
			}
			r, m, _ := e.solver.Check(q, e.dom, []*Term{probe})
			if r == Unknown {
				e.stats.Inconclusive++
				e.abort("budget", "solver returned unknown while concretising")
			}
			if r == Unsat {
				break
			}
			vals = append(vals, m[probe])
			if len(vals) > e.lim.MaxConcVals {
				e.abort("budget", fmt.Sprintf("more than %d feasible values while concretising %s", e.lim.MaxConcVals, t))
			}
		}
	}
	if len(vals) == 0 {
		e.fault("no feasible value for %s", t)
	}
	sort.Slice(vals, func(i, j int) bool { return vals[i] < vals[j] })
	sib := make([]int64, 0, len(vals)-1)
	for _, v := range vals[1:] {
		sib = append(sib, int64(v))
	}
	e.record(int64(vals[0]), len(vals) == 1, sib)
	e.addConstraint(e.ctx.Eq(t, e.ctx.Const(t.W, vals[0])))
	return vals[0]
}

// ---------------------------------------------------------------- obligations

// Check is an obligation: ok must hold for every value on this path. If it can fail,
// a finding with a model is recorded; the path then continues under ok.
func (e *Exec) Check(ok *Term, kind, label, pos string) {
	e.stats.Obligations++
	if ok.IsConst() && ok.Val == 1 {
		e.stats.Discharged++
		return
	}
	bad := e.ctx.Not(ok)
	// Every verdict on an obligation is taken from the SMT solver.
	cons := append(e.relevant(bad), bad)
	if ok.IsConst() { // concretely false: any model of the path condition is a witness
		cons = nil
	}
	r, _, _ := e.solver.Check(cons, e.dom, nil)
	if f, known := e.fast(bad); known && r != Unknown && (r == Sat) != f {
		e.stats.CrossDisagree++
		e.fault("bitset procedure and z3 disagree on obligation %s", label)
	}
	switch r {
	case Unsat:
		e.stats.Discharged++
		return
	case Unknown:
		e.stats.Inconclusive++
		e.stats.Faults = append(e.stats.Faults, "unknown on obligation "+label)
		e.addConstraint(ok)
		return
	}
	e.stats.Violated++
	e.recordFinding(kind, label, pos, bad)
	if ok.IsConst() {
		e.abort("stop", "assertion concretely false")
	}
	if e.feasible(ok) != Sat {
		e.abort("stop", "assertion false on every input of this path")
	}
	e.addConstraint(ok)
}

// MayPanic forks on a run-time check of the interpreted program: if ok can be false the
// failing side becomes a path on which the target panics with a Go run-time error.
func (e *Exec) MayPanic(ok *Term, kind string, pos token.Pos) {
	if ok.IsConst() && ok.Val == 1 {
		return
	}
	fresh := len(e.trail) >= len(e.prefix)
	e.lastBoth = false
	taken := e.Branch(ok)
	if fresh {
		// a run-time check of the interpreted program is an obligation; it is discharged when the
		// failing side is infeasible (otherwise the sibling path panics and is reported there)
		e.stats.Obligations++
		if taken && !e.lastBoth {
			e.stats.Discharged++
		}
	}
	if !taken {
		panic(targetRuntimePanic{kind: kind, pos: e.posStr(pos)})
	}
}

func (e *Exec) posStr(pos token.Pos) string {
	if e.fset == nil || pos == token.NoPos {
		return "?"
	}
	p := e.fset.Position(pos)
	return fmt.Sprintf("%s:%d", shortFile(p.Filename), p.Line)
}

func shortFile(f string) string {
	if i := strings.Index(f, "/repo/"); i >= 0 {
		return f[i+6:]
	}
	if i := strings.Index(f, "/src/"); i >= 0 {
		return f[i+5:]
	}
	return f
}

func (e *Exec) recordFinding(kind, label, pos string, extra *Term) {
	if len(e.finds) >= 8 {
		return
	}
	// full model of pc ∧ extra over all inputs
	cons := e.allGeneral()
	if extra != nil && !extra.IsConst() {
		cons = append(cons, extra)
	}
	var want []*Term
	for _, in := range e.inputs {
		want = append(want, in.Terms...)
	}
	r, model, _ := e.solver.Check(cons, e.dom, want)
	if r != Sat {
		e.stats.Faults = append(e.stats.Faults, fmt.Sprintf("could not obtain a model for finding %s (%v)", label, r))
		return
	}
	f := &Finding{Kind: kind, Label: label, Pos: pos, Values: e.valuesFromModel(model), Harness: e.harness}
	f.Path = append(f.Path, e.trail...)
	f.Trace = e.panicTrace
	for s := range e.sites {
		f.Sites = append(f.Sites, s)
	}
	sort.Strings(f.Sites)
	e.finds = append(e.finds, f)
}

func (e *Exec) valuesFromModel(model map[*Term]uint64) map[string]string {
	out := map[string]string{}
	for _, in := range e.inputs {
		switch in.Kind {
		case "bytes":
			b := make([]byte, len(in.Terms))
			for i, t := range in.Terms {
				b[i] = byte(model[t])
			}
			out[in.Name] = hex.EncodeToString(b)
		case "choice", "len":
			out[in.Name] = fmt.Sprint(in.Conc)
		case "int":
			out[in.Name] = fmt.Sprint(sext64(model[in.Terms[0]], in.Terms[0].W))
		default:
			out[in.Name] = fmt.Sprint(model[in.Terms[0]])
		}
	}
	return out
}

// ---------------------------------------------------------------- inputs

func (e *Exec) uniqueName(name string) string {
	n := e.names[name]
	e.names[name] = n + 1
	if n == 0 {
		return name
	}
	return fmt.Sprintf("%s#%d", name, n)
}

func smtName(s string) string {
	var sb strings.Builder
	for _, r := range s {
		switch {
		case r >= 'a' && r <= 'z', r >= 'A' && r <= 'Z', r >= '0' && r <= '9', r == '_', r == '.', r == '!':
			sb.WriteRune(r)
		default:
			sb.WriteByte('_')
		}
	}
	return sb.String()
}

func (e *Exec) newInput(name, kind string, w uint8, n int) *inputVar {
	name = e.uniqueName(name)
	in := &inputVar{Name: name, Kind: kind}
	for i := 0; i < n; i++ {
		vn := "v." + smtName(name)
		if kind == "bytes" {
			vn = fmt.Sprintf("v.%s!%d", smtName(name), i)
		}
		in.Terms = append(in.Terms, e.ctx.Var(vn, w))
	}
	e.inputs = append(e.inputs, in)
	return in
}

// ---------------------------------------------------------------- undo log

func (e *Exec) logStore(addr *value) {
	e.undo = append(e.undo, undoEntry{addr, *addr})
}

func (e *Exec) rollback() {
	for i := len(e.undoFns) - 1; i >= 0; i-- {
		e.undoFns[i]()
	}
	e.undoFns = nil
	for i := len(e.undo) - 1; i >= 0; i-- {
		*e.undo[i].addr = e.undo[i].old
	}
	e.undo = e.undo[:0]
}

func debugf(format string, args ...interface{}) {
	if os.Getenv("SYMGO_DEBUG") != "" {
		fmt.Fprintf(os.Stderr, format+"\n", args...)
	}
}

// allGeneral returns every constraint that is not captured by the per-variable domains.
func (e *Exec) allGeneral() []*Term {
	cons := append([]*Term{}, e.general...)
	for _, cl := range e.clauses {
		cons = append(cons, cl.term)
	}
	for _, bc := range e.bins {
		cons = append(cons, bc.term)
	}
	return cons
}
