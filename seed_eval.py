#!/usr/bin/env python3
"""Confirms a seeded change (patch + demo) in a scratch worktree and runs checks against it.

usage: seed_eval.py confirm <patch.diff> <demo_test.go> <pkgdir-relative>     -> confirms in /tmp/ev_<rand>
       seed_eval.py run <patch.diff> <PROPERTY> [<PROPERTY>...] [--tier quick]   -> applies to /repo, runs checks, reverts
"""
import os, subprocess, sys, tempfile, shutil, json

ENV = dict(os.environ, GOFLAGS="-mod=mod", GOPROXY="off", GOSUMDB="off", GOTOOLCHAIN="local")

def sh(cmd, cwd=None, timeout=1800):
    r = subprocess.run(cmd, cwd=cwd, env=ENV, stdout=subprocess.PIPE, stderr=subprocess.STDOUT, text=True, timeout=timeout)
    return r.returncode, r.stdout

def confirm(patch, demo, pkgdir):
    wt = tempfile.mkdtemp(prefix="ev_", dir="/tmp")
    os.rmdir(wt)
    out = {}
    try:
        rc, o = sh(["git", "-C", "/repo", "worktree", "add", "-q", "--detach", wt, "HEAD"])
        assert rc == 0, o
        rc, o = sh(["git", "apply", patch], cwd=wt)
        out["apply"] = (rc, o[-500:])
        rc, o = sh(["go", "build", "./..."], cwd=wt)
        out["build"] = rc
        rc, o = sh(["go", "test", "-vet=off", "-count=1", "./..."], cwd=wt)
        out["suite_with_change"] = (rc, o[-600:])
        dst = os.path.join(wt, pkgdir, "zz_seeded_demo_test.go")
        shutil.copy(demo, dst)
        rc, o = sh(["go", "test", "-vet=off", "-count=1", "-run", "Seed|Demo|seeded|demo", "./" + pkgdir], cwd=wt)
        out["demo_with_change"] = (rc, o[-800:])
        sh(["git", "apply", "-R", patch], cwd=wt)
        rc, o = sh(["go", "test", "-vet=off", "-count=1", "-run", "Seed|Demo|seeded|demo", "./" + pkgdir], cwd=wt)
        out["demo_without_change"] = (rc, o[-400:])
    finally:
        sh(["git", "-C", "/repo", "worktree", "remove", "--force", wt])
        shutil.rmtree(wt, ignore_errors=True)
    ok = out.get("build") == 0 and out["suite_with_change"][0] == 0 and out["demo_with_change"][0] != 0 and out["demo_without_change"][0] == 0
    out["confirmed"] = ok
    print(json.dumps(out, indent=1))
    return 0 if ok else 1

def run(patch, props, tier):
    rc, o = sh(["git", "-C", "/repo", "status", "--porcelain"])
    assert o.strip() == "", "/repo not clean: " + o
    rc, o = sh(["git", "-C", "/repo", "apply", patch])
    assert rc == 0, o
    res = {}
    try:
        for p in props:
            rc, o = sh(["/verif/check", p, "--tier", tier], cwd="/verif", timeout=3600)
            lines = [l for l in o.splitlines() if l.startswith(("VIOLATION", "KNOWN", "C", "ENGINE", "INCONCLUSIVE", "VACUOUS", "FAULT"))]
            res[p] = {"exit": rc, "summary": lines[-1] if lines else "", "violations": [l for l in lines if l.startswith("VIOLATION")][:3],
                      "other": [l[:300] for l in lines if l.startswith(("ENGINE", "INCONCLUSIVE", "VACUOUS", "FAULT"))][:3]}
    finally:
        sh(["git", "-C", "/repo", "checkout", "--", "."])
    print(json.dumps(res, indent=1))
    return 0

if __name__ == "__main__":
    if sys.argv[1] == "confirm":
        sys.exit(confirm(sys.argv[2], sys.argv[3], sys.argv[4]))
    if sys.argv[1] == "run":
        tier = "quick"
        args = sys.argv[2:]
        if "--tier" in args:
            i = args.index("--tier"); tier = args[i + 1]; del args[i:i + 2]
        sys.exit(run(args[0], args[1:], tier))
