#!/usr/bin/env python3
"""Driver for the solver-based checks of gabriel-vasile/mimetype.

usage: verif.py check <PROPERTY> [--tier quick|thorough]
       verif.py replay <replay.json>

Every check (1) regenerates overlays from /verif/harness, (2) runs the symbolic
executor /verif/bin/symgo over /repo's current working tree (SSA is rebuilt from
source on every run), (3) replays every counterexample natively with `go test
-overlay`, (4) writes /verif/evidence/<id>.json and prints VIOLATION / KNOWN-FINDING lines.
"""
import json, os, subprocess, sys, time, hashlib, shutil, tempfile, concurrent.futures as cf

VERIF = os.path.dirname(os.path.abspath(__file__))
REPO = os.environ.get("VERIF_REPO", "/repo")
SYMGO = os.path.join(VERIF, "bin", "symgo")
MOD = "github.com/gabriel-vasile/mimetype"
GOENV = dict(os.environ, GOFLAGS="-mod=mod", GOPROXY="off", GOSUMDB="off", GOTOOLCHAIN="local", CGO_ENABLED="0")
NCPU = int(os.environ.get("VERIF_JOBS", "16"))

PKGDIR = {"mimetype": ".", "magic": "internal/magic", "json": "internal/json", "charset": "internal/charset"}


def sh(cmd, **kw):
    return subprocess.run(cmd, stdout=subprocess.PIPE, stderr=subprocess.STDOUT, text=True, **kw)


def ensure_built():
    src_newer = False
    if os.path.exists(SYMGO):
        bt = os.path.getmtime(SYMGO)
        for root, _, files in os.walk(os.path.join(VERIF, "engine")):
            for f in files:
                if f.endswith(".go") and os.path.getmtime(os.path.join(root, f)) > bt:
                    src_newer = True
    if not os.path.exists(SYMGO) or src_newer:
        r = sh(["go", "build", "-o", SYMGO, "./cmd/symgo"], cwd=os.path.join(VERIF, "engine"), env=GOENV)
        if r.returncode != 0:
            print(r.stdout)
            print("ENGINE-BUILD-FAILED")
            sys.exit(2)


def harness_files(pkg):
    d = os.path.join(VERIF, "harness", pkg)
    return sorted(os.path.join(d, f) for f in os.listdir(d) if f.endswith(".go"))


_overlay_lock = __import__("threading").Lock()


def make_overlay(pkg, workdir, native, extra=None):
    """returns list of (virtual, real) pairs"""
    pdir = os.path.normpath(os.path.join(REPO, PKGDIR[pkg]))
    tmpl = "shim_native.go.tmpl" if native else "shim_sym.go.tmpl"
    shim = open(os.path.join(VERIF, "harness", tmpl)).read().replace("PKGNAME", pkg)
    shim_path = os.path.join(workdir, "zz_verif_shim_%s_%s.go" % (pkg, "n" if native else "s"))
    with _overlay_lock:
        if not os.path.exists(shim_path):
            tmp = shim_path + ".tmp%d" % __import__("threading").get_ident()
            open(tmp, "w").write(shim)
            os.replace(tmp, shim_path)
    pairs = [(os.path.join(pdir, "zz_verif_shim.go"), shim_path)]
    for f in harness_files(pkg):
        pairs.append((os.path.join(pdir, "zz_verif_" + os.path.basename(f)), f))
    for name, content in (extra or {}).items():
        p = os.path.join(workdir, name)
        open(p, "w").write(content)
        pairs.append((os.path.join(pdir, name), p))
    return pairs


def run_symgo(unit, workdir, shard, of, tier):
    """one symgo run of a unit: a coordinator process with `of` worker processes that share the unit's
    paths dynamically (work is handed out in batches of open decision prefixes)"""
    pkg = unit["pkg"]
    pairs = make_overlay(pkg, workdir, native=False)
    out = os.path.join(workdir, "res_%s_%s_%d.json" % (unit["name"], unit.get("label", ""), shard))
    cmd = [SYMGO, "-dir", REPO, "-pkg", "./" + PKGDIR[pkg], "-out", out, "-workers", str(of)]
    for v, r in pairs:
        cmd += ["-overlay", "%s=%s" % (v, r)]
    for h in unit["harnesses"]:
        cmd += ["-harness", h]
    cmd += unit.get("args", [])
    cmd += unit.get(tier + "_args", [])
    # wall-clock budget per harness: running out of it makes the unit inconclusive (exit 2), never a success
    cmd += ["-time-budget-s", str(int(os.environ.get("VERIF_BUDGET_S") or unit.get(tier + "_budget_s", 1500 if tier == "quick" else 6 * 3600)))]
    for k in load_known():
        # a recorded finding is reported but must not use up the "stop after n findings" budget of the exploration
        if k.get("status") == "known" and k.get("label") and k.get("property") == unit.get("property"):
            cmd += ["-known-label", k["label"]]
    if unit.get("smt_log"):
        cmd += ["-smt-log", unit["smt_log"]]
    t0 = time.time()
    r = sh(cmd, env=GOENV, timeout=unit.get("timeout", 7200))
    dt = time.time() - t0
    if r.returncode != 0 or not os.path.exists(out):
        return {"error": "symgo exit %d: %s" % (r.returncode, r.stdout[-2000:]), "unit": unit["name"], "shard": shard, "wall": dt}
    doc = json.load(open(out))
    doc["unit"], doc["shard"], doc["wall"], doc["stderr"] = unit["name"], shard, dt, r.stdout[-2000:]
    return doc


REPLAY_TEST = """//go:build verif

package %s

import "testing"

func TestVerifReplay(t *testing.T) {
	%s()
}
"""


def replay(pkg, harness, finding, replay_path, race=False):
    """re-runs the harness natively on the counterexample; returns (reproduced, output)"""
    wd = tempfile.mkdtemp(prefix="verif_replay_")
    try:
        pairs = make_overlay(pkg, wd, native=True, extra={"zz_verif_replay_test.go": REPLAY_TEST % (pkg, harness)})
        ov = {"Replace": {v: r for v, r in pairs}}
        ovp = os.path.join(wd, "overlay.json")
        json.dump(ov, open(ovp, "w"))
        env = dict(GOENV, VERIF_REPLAY=replay_path)
        if race:
            env["CGO_ENABLED"] = "1"
        cmd = ["go", "test", "-tags", "verif", "-vet=off", "-count=1", "-overlay", ovp, "-run", "^TestVerifReplay$"]
        if race:
            cmd.append("-race")
        cmd.append("./" + PKGDIR[pkg])
        r = sh(cmd, cwd=REPO, env=env, timeout=600)
        out = r.stdout
        if "VERIF-ASSUME-FALSE" in out or "VERIF-REPLAY" in out:
            return False, out
        if finding["kind"] == "assert":
            return ("VERIF-ASSERT-FAILED: " + finding["label"]) in out, out
        if finding["kind"] == "panic":
            if r.returncode == 0:
                return False, out
            lab = finding["label"]
            for key in ("index out of range", "slice bounds out of range", "nil pointer dereference", "divide by zero",
                        "makeslice", "negative shift", "nil map", "interface conversion"):
                if key in lab:
                    return key in out, out
            return "panic:" in out, out
        if finding["kind"] == "race":
            return "DATA RACE" in out, out
        return False, out
    finally:
        shutil.rmtree(wd, ignore_errors=True)


def load_known():
    p = os.path.join(VERIF, "known_findings.json")
    if not os.path.exists(p):
        return []
    return json.load(open(p)).get("findings", [])


def match_known(pid, finding, known):
    """A finding matches a known entry if property, harness and label agree and every
    listed site is on the violating path (sites are file:line/branch strings)."""
    fs = set(finding.get("sites") or [])
    for k in known:
        if k.get("status") != "known" or k["property"] != pid:
            continue
        if k.get("label") and k["label"] != finding["label"]:
            continue
        if k.get("harness") and k["harness"] != finding["harness"]:
            continue
        if k.get("kind") and k["kind"] != finding["kind"]:
            continue
        if not set(k.get("sites") or []) <= fs:
            continue
        vals = k.get("values")
        if vals and any(finding["values"].get(a) != b for a, b in vals.items()):
            continue
        return k
    return None


def check(pid, tier, spec):
    t0 = time.time()
    ensure_built()
    seed = int(os.environ.get("VERIF_SEED", "0") or 0)
    workdir = tempfile.mkdtemp(prefix="verif_%s_" % pid)
    evid_dir = os.environ.get("VERIF_EVIDENCE_DIR") or os.path.join(VERIF, "evidence")
    os.makedirs(evid_dir, exist_ok=True)
    units = [dict(u, property=pid) for u in spec["units"] if tier in u.get("tiers", ["quick", "thorough"])]
    only = os.environ.get("VERIF_UNITS")  # development aid: run a subset of the units (vacuity labels of the others will be missing)
    if only:
        units = [u for u in units if u["name"] in only.split(",")]
    # units run one after the other; each is explored by NCPU (or unit["workers"]) cooperating worker processes
    results = []
    for u in units:
        w = max(1, min(NCPU, u.get("workers", NCPU)))
        try:
            results.append(run_symgo(u, workdir, 0, w, tier))
        except Exception as e:  # timeout etc.
            results.append({"error": repr(e)})
    # aggregate
    agg = {"paths": 0, "instrs": 0, "branches": 0, "unary": 0, "z3_branch": 0, "obligations": 0, "discharged": 0,
           "violated": 0, "inconclusive": 0, "cross_checked": 0, "solver_queries": 0, "solver_s": 0.0, "assume_cut": 0,
           "budget_paths": 0, "fault_paths": 0, "merged": 0, "summarised": 0, "concretized": 0}
    reach, funcs, faults, samples, findings, stubs, races = {}, {}, [], [], [], set(), []
    statuses = []
    errors = []
    for doc in results:
        if "error" in doc:
            errors.append(doc["error"])
            continue
        for r in doc["results"]:
            st = r["stats"]
            statuses.append((doc["unit"], r["harness"], doc["shard"], r["status"], r.get("reason", ""), round(doc["wall"], 1), st["Paths"]))
            agg["paths"] += st["Paths"]; agg["instrs"] += st["Instrs"]; agg["branches"] += st["Branches"]
            agg["unary"] += st["UnaryDecided"]; agg["z3_branch"] += st["SolverDecided"]
            agg["obligations"] += st["Obligations"]; agg["discharged"] += st["Discharged"]
            agg["violated"] += st["Violated"]; agg["inconclusive"] += st["Inconclusive"]
            agg["cross_checked"] += st["CrossChecked"]; agg["assume_cut"] += st["PathsAssumeCut"]
            agg["budget_paths"] += st["PathsBudget"]; agg["fault_paths"] += st["PathsFault"]
            agg["merged"] += st["Merged"]; agg["summarised"] += st["Summarised"]; agg["concretized"] += st["Concretized"]
            agg["solver_queries"] += r["solver_queries"]; agg["solver_s"] += r["solver_s"]
            for k, v in (st.get("Reach") or {}).items():
                reach[k] = reach.get(k, 0) + v
            for k, v in (st.get("Funcs") or {}).items():
                funcs[k] = funcs.get(k, 0) + v
            for f in st.get("Faults") or []:
                faults.append(f)
            for s in (st.get("Stubs") or {}):
                stubs.add(s)
            for s in r.get("samples") or []:
                if len(samples) < 24:
                    samples.append({"harness": r["harness"], **s})
            for f in r.get("findings") or []:
                f["pkg"] = next(u["pkg"] for u in units if u["name"] == doc["unit"])
                findings.append(f)
            for rc in r.get("races") or []:
                races.append(rc)

    # vacuity: every required label reached
    vacuous = [l for l in spec.get("must_reach", []) if reach.get(l, 0) == 0]
    # replay findings natively
    known = load_known()
    violations, known_hits, disagreements = [], {}, []
    rep_dir = os.path.join(os.environ.get("VERIF_REPLAY_DIR") or os.path.join(VERIF, "replays"), pid)
    seen_labels = {}
    nrep = 0
    for f in findings:
        key = (f["harness"], f["label"])
        k = match_known(pid, f, known)
        # replay at most 3 per (harness,label) and 12 overall
        seen_labels[key] = seen_labels.get(key, 0) + 1
        if seen_labels[key] > 3 or nrep >= 12:
            if k is not None:
                known_hits.setdefault(k["id"], k)
            continue
        os.makedirs(rep_dir, exist_ok=True)
        h = hashlib.sha1(json.dumps([f["harness"], f["label"], f["values"]], sort_keys=True).encode()).hexdigest()[:10]
        rp = os.path.join(rep_dir, "%s_%s.json" % (f["harness"], h))
        json.dump({"property": pid, "harness": f["harness"], "pkg": f["pkg"], "kind": f["kind"], "label": f["label"],
                   "values": f["values"], "sites": f.get("sites"), "trace": f.get("trace")}, open(rp, "w"), indent=1)
        nrep += 1
        ok, out = replay(f["pkg"], f["harness"], f, rp, race=(f["kind"] == "race"))
        if not ok:
            disagreements.append({"finding": f["label"], "harness": f["harness"], "values": f["values"], "native_output": out[-1500:]})
            continue
        if k is not None:
            known_hits.setdefault(k["id"], k)
        else:
            violations.append((f, rp))
    wall = time.time() - t0
    bad_status = [s for s in statuses if s[3] in ("inconclusive", "fault")]
    exit_code = 0
    for kid, k in known_hits.items():
        print("KNOWN-FINDING: property=%s %s" % (pid, k["what"]))
    for f, rp in violations:
        print("VIOLATION property=%s replay=%s" % (pid, rp))
        print("  harness=%s label=%s values=%s" % (f["harness"], f["label"], json.dumps(f["values"])))
        exit_code = 1
    if exit_code == 0 and (errors or bad_status or disagreements or vacuous or faults):
        exit_code = 2
        for e in errors:
            print("ENGINE-ERROR:", e[-800:])
        for s in bad_status[:10]:
            print("INCONCLUSIVE:", s)
        for d in disagreements[:5]:
            print("ENGINE-DISAGREEMENT (counterexample did not reproduce natively):", json.dumps(d)[:1500])
        for v in vacuous:
            print("VACUOUS: label never reached:", v)
        for f in faults[:10]:
            print("FAULT:", f[:800])
    mimefuncs = {k: v for k, v in funcs.items() if MOD in k}
    otherfuncs = {k: v for k, v in funcs.items() if MOD not in k}
    top_other = dict(sorted(otherfuncs.items(), key=lambda kv: -kv[1])[:60])
    evidence = {
        "property_id": pid, "tier": tier, "seed": seed, "level": "other",
        "coverage": {
            "explanation": spec["explanation"],
            "technique": "bounded symbolic execution of the repository's Go code from its go/ssa form (rebuilt from /repo on this run); "
                         "branch feasibility by an exact 256-value bitset procedure for single-byte constraints and z3 otherwise; "
                         "every obligation verdict (assertion, run-time check) taken from z3; counterexamples replayed natively",
            "bounds": spec.get("bounds", {}).get(tier, spec.get("bounds", {})),
            "outside_claim": spec.get("outside", []),
            "harnesses": sorted({(s[0] + ":" + s[1]) for s in statuses}),
            "functions_encoded_mimetype": dict(sorted(mimefuncs.items())),
            "functions_encoded_other_top60": top_other,
            "functions_encoded_total": len(funcs),
            "evaluations": agg["paths"],
            "distinct_nontrivial": agg["paths"] - agg["assume_cut"],
            "rule": "one evaluation = one explored path class (a set of inputs that take the same branches); classes are disjoint by construction; "
                    "non-trivial = not cut by an unsatisfied assumption",
            "paths": agg["paths"], "paths_cut_by_assumption": agg["assume_cut"],
            "instructions_interpreted": agg["instrs"],
            "branch_decisions": agg["branches"], "decided_by_bitset": agg["unary"], "decided_by_z3": agg["z3_branch"],
            "bitset_verdicts_crosschecked_with_z3": agg["cross_checked"],
            "obligations": agg["obligations"], "discharged": agg["discharged"], "violated": agg["violated"],
            "inconclusive": agg["inconclusive"],
            "regions_coalesced": agg["merged"], "pure_calls_summarised": agg["summarised"], "values_concretised_by_forking": agg["concretized"],
            "solver_queries": agg["solver_queries"], "solver_s": round(agg["solver_s"], 3),
            "labels_reached": reach,
            "stubs_used": sorted(stubs) + spec.get("stubs", []),
            "checker_cmd": "python3 /verif/verif.py check %s --tier %s" % (pid, tier),
            "trusted_base": ["go/packages + go/ssa (x/tools v0.29.0)", "symgo instruction semantics (fork of x/tools go/ssa/interp)",
                             "intrinsics listed in engine/symgo/intrinsics.go", "z3 4.8.12", "the harness oracles under /verif/harness",
                             "composition arguments in DESIGN.md section 3"],
            "samples": samples[:24],
            "unit_status": [list(s) for s in statuses][:200],
            "known_findings_hit": sorted(known_hits),
            "replayed_natively": nrep,
            "engine_disagreements": disagreements[:5],
            "exhaustive": False,
        },
        "assumptions": spec.get("assumptions", []),
        "wall_s": round(wall, 2),
        "violations": len(violations),
    }
    json.dump(evidence, open(os.path.join(evid_dir, pid + ".json"), "w"), indent=1)
    shutil.rmtree(workdir, ignore_errors=True)
    print("%s %s: paths=%d obligations=%d discharged=%d violated=%d known=%d wall=%.1fs exit=%d" % (
        pid, tier, agg["paths"], agg["obligations"], agg["discharged"], agg["violated"], len(known_hits), wall, exit_code))
    return exit_code


def main():
    sys.path.insert(0, VERIF)
    import specs
    if len(sys.argv) >= 3 and sys.argv[1] == "check":
        pid = sys.argv[2]
        tier = os.environ.get("VERIF_TIER", "quick")
        if "--tier" in sys.argv:
            tier = sys.argv[sys.argv.index("--tier") + 1]
        sys.exit(check(pid, tier, specs.SPECS[pid]))
    if len(sys.argv) >= 3 and sys.argv[1] == "replay":
        doc = json.load(open(sys.argv[2]))
        ok, out = replay(doc["pkg"], doc["harness"], doc, os.path.abspath(sys.argv[2]), race=(doc.get("kind") == "race"))
        print(out[-3000:])
        print("REPRODUCED" if ok else "NOT-REPRODUCED")
        sys.exit(1 if ok else 0)
    print(__doc__)
    sys.exit(2)


if __name__ == "__main__":
    main()
