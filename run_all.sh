#!/bin/bash
# usage: run_all.sh quick|thorough  — runs every check in turn and prints a summary
tier=${1:-quick}
cd /verif
for p in C02 C03 C04 C05 C06 C07 C08 C09 C10 C11 C12 C13 C14 C15 C16 C17 C18 C19 C01; do
  s=$(date +%s)
  ./check $p --tier $tier > /tmp/run_all_$p.log 2>&1
  rc=$?
  e=$(date +%s)
  echo "$p rc=$rc $((e-s))s $(tail -1 /tmp/run_all_$p.log)"
done
