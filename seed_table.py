#!/usr/bin/env python3
"""Regenerates the seeded-change table in DESIGN.md (between the SEEDED-TABLE markers) from seeded/*/meta.json + result.json."""
import json, os, re
V = os.path.dirname(os.path.abspath(__file__))
rows = []
caught = missed = 0
for sid in sorted(os.listdir(os.path.join(V, "seeded"))):
    d = os.path.join(V, "seeded", sid)
    if not os.path.exists(os.path.join(d, "meta.json")):
        continue
    m = json.load(open(os.path.join(d, "meta.json")))
    r = json.load(open(os.path.join(d, "result.json"))) if os.path.exists(os.path.join(d, "result.json")) else None
    verdict, by = "not evaluated", ""
    if r:
        own = r["checks"].get(m["property"], {})
        if r.get("caught"):
            verdict = "caught"
            caught += 1
            det = (own.get("detail") or [""])[0]
            mm = re.search(r"harness=(\S+) label=(.+?) values=", det)
            if mm:
                by = "%s: %s" % (mm.group(1), mm.group(2)[:70])
        else:
            missed += 1
            verdict = "MISSED (check exit %s%s)" % (own.get("exit"), ", inconclusive" if own.get("exit") == 2 else "")
    rows.append("| %s | %s | %s | %s |" % (sid, m["change"][:150].replace("|", "/"), verdict, by.replace("|", "/")))
tbl = "<!-- SEEDED-TABLE-BEGIN -->\n| id | change (needs: see seeded/<id>/meta.json) | quick check of its property | reporting harness: assertion |\n|---|---|---|---|\n" + "\n".join(rows) + \
      "\n\nTotals: %d caught, %d missed, %d seeded changes.\n<!-- SEEDED-TABLE-END -->" % (caught, missed, len(rows))
p = os.path.join(V, "DESIGN.md")
s = open(p).read()
if "SEEDED-TABLE-PLACEHOLDER" in s:
    s = s.replace("SEEDED-TABLE-PLACEHOLDER", tbl)
else:
    s = re.sub(r"<!-- SEEDED-TABLE-BEGIN -->.*<!-- SEEDED-TABLE-END -->", lambda _: tbl, s, flags=re.S)
open(p, "w").write(s)
print(caught, missed, len(rows))
